//! SplitMix64 / xoshiro256** with tagged sub-streams. No OS entropy, no `rand` crate.

#[inline]
pub fn splitmix(x: &mut u64) -> u64 {
    *x = x.wrapping_add(0x9E37_79B9_7F4A_7C15);
    let mut z = *x;
    z = (z ^ (z >> 30)).wrapping_mul(0xBF58_476D_1CE4_E5B9);
    z = (z ^ (z >> 27)).wrapping_mul(0x94D0_49BB_1331_11EB);
    z ^ (z >> 31)
}

/// Mix any number of words into one (order sensitive).
pub fn mix(words: &[u64]) -> u64 {
    let mut s = 0x243F_6A88_85A3_08D3u64;
    for w in words {
        s ^= *w;
        let _ = splitmix(&mut s);
        s = s.rotate_left(23) ^ splitmix(&mut s);
    }
    let mut t = s;
    splitmix(&mut t)
}

pub fn tag(s: &str) -> u64 {
    // FNV-1a
    let mut h = 0xcbf2_9ce4_8422_2325u64;
    for b in s.bytes() {
        h ^= b as u64;
        h = h.wrapping_mul(0x0000_0100_0000_01B3);
    }
    h
}

#[derive(Clone, Debug)]
pub struct Rng {
    s: [u64; 4],
}

impl Rng {
    pub fn new(seed: u64) -> Self {
        let mut x = seed;
        let s = [splitmix(&mut x), splitmix(&mut x), splitmix(&mut x), splitmix(&mut x)];
        Rng { s }
    }
    /// Independent sub-stream: adding draws to one stream never shifts another.
    pub fn sub(seed: u64, name: &str) -> Self {
        Rng::new(mix(&[seed, tag(name)]))
    }
    pub fn next(&mut self) -> u64 {
        let r = self.s[1].wrapping_mul(5).rotate_left(7).wrapping_mul(9);
        let t = self.s[1] << 17;
        self.s[2] ^= self.s[0];
        self.s[3] ^= self.s[1];
        self.s[1] ^= self.s[2];
        self.s[0] ^= self.s[3];
        self.s[2] ^= t;
        self.s[3] = self.s[3].rotate_left(45);
        r
    }
    /// uniform in 0..n (n>0)
    pub fn below(&mut self, n: usize) -> usize {
        if n <= 1 {
            return 0;
        }
        (self.next() % (n as u64)) as usize
    }
    /// inclusive range
    pub fn range(&mut self, lo: usize, hi: usize) -> usize {
        lo + self.below(hi - lo + 1)
    }
    /// true with probability pct/100
    pub fn pct(&mut self, pct: u32) -> bool {
        (self.next() % 100) < pct as u64
    }
    pub fn pick<'a, T>(&mut self, xs: &'a [T]) -> &'a T {
        &xs[self.below(xs.len())]
    }
    /// index drawn with the given integer weights
    pub fn weighted(&mut self, w: &[u32]) -> usize {
        let total: u64 = w.iter().map(|x| *x as u64).sum();
        if total == 0 {
            return 0;
        }
        let mut r = self.next() % total;
        for (i, x) in w.iter().enumerate() {
            if r < *x as u64 {
                return i;
            }
            r -= *x as u64;
        }
        w.len() - 1
    }
    /// pick from a slice of string literals (helps type inference at `&str` call sites)
    pub fn pick_str(&mut self, xs: &[&'static str]) -> &'static str {
        xs[self.below(xs.len())]
    }
    pub fn shuffle<T>(&mut self, xs: &mut [T]) {
        for i in (1..xs.len()).rev() {
            let j = self.below(i + 1);
            xs.swap(i, j);
        }
    }
}
