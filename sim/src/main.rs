//! cedar-sim: deterministic simulation with fault injection for cedar-policy/cedar.
//! See /verif/DESIGN.md.

mod core;
mod hashseam;
mod rng;
mod worlds;

use crate::core::*;
use serde_json::json;
use std::sync::Arc;

fn verif_dir() -> String {
    std::env::var("VERIF_DIR").unwrap_or_else(|_| "/verif".to_string())
}

fn verif_seed() -> u64 {
    match std::env::var("VERIF_SEED") {
        Ok(s) if !s.trim().is_empty() => s.trim().parse::<u64>().unwrap_or_else(|_| {
            // accept negative / huge integers by hashing the text
            crate::rng::tag(s.trim())
        }),
        _ => DEFAULT_SEED,
    }
}

fn workers() -> usize {
    std::env::var("VERIF_WORKERS").ok().and_then(|s| s.parse().ok()).unwrap_or(16)
}

/// Build every process-wide lazy on the main thread under a fixed hash seed, so that no run can
/// influence another through a static (DESIGN.md 2.2).
fn warm_up() {
    hashseam::set_thread_hash_seed(0x00C0_FFEE);
    // cedar code: a panic in here is not the harness's to report (the cases will); carry on
    let parts: [fn(); 5] = [worlds::hierarchy::warm_up, worlds::batched::warm_up, worlds::authz::warm_up, worlds::frontends::warm_up, worlds::storagefaults::warm_up];
    for f in parts {
        let _ = std::panic::catch_unwind(f);
    }
}

/// Building the C20 document pool runs cedar code on the harness's own seed documents (to derive
/// protobuf encodings and bundles). A stack overflow or abort in there would take the harness
/// down before it could report anything. So a child builds the pool first, noting the seed it is
/// working on; if the child dies or stalls, that seed is left underived (VERIF_POOL_SKIP) and the
/// ordinary cases over the seed, which run crash-isolated, report the violation.
fn preflight() -> Vec<String> {
    let exe = std::env::current_exe().unwrap_or_else(|_| "cedar-sim".into());
    let dir = std::env::var("VERIF_OUT_DIR").unwrap_or_else(|_| format!("{}/work", verif_dir()));
    let _ = std::fs::create_dir_all(&dir);
    let pf = format!("{dir}/preflight-{}.progress", std::process::id());
    let mut skip: Vec<String> = vec![];
    for _ in 0..12 {
        let _ = std::fs::write(&pf, "");
        let child = std::process::Command::new(&exe)
            .arg("preflight")
            .env("VERIF_POOL_SKIP", skip.join(","))
            .env("VERIF_POOL_PROGRESS", &pf)
            .stdout(std::process::Stdio::null())
            .stderr(std::process::Stdio::null())
            .spawn();
        let Ok(mut child) = child else { harness_error("cannot start the preflight child") };
        let t0 = std::time::Instant::now();
        let status = loop {
            match child.try_wait() {
                Ok(Some(st)) => break Some(st),
                Ok(None) => {
                    if t0.elapsed().as_secs() > 120 {
                        let _ = child.kill();
                        let _ = child.wait();
                        break None;
                    }
                    std::thread::sleep(std::time::Duration::from_millis(20));
                }
                Err(_) => harness_error("cannot wait for the preflight child"),
            }
        };
        if status.map(|s| s.success()).unwrap_or(false) {
            let _ = std::fs::remove_file(&pf);
            return skip;
        }
        let at = std::fs::read_to_string(&pf).unwrap_or_default();
        if at.is_empty() || skip.contains(&at) {
            let _ = std::fs::remove_file(&pf);
            harness_error(&format!("the preflight child ended with {status:?} outside the derivation of a seed document (at {at:?}): cedar code crashes on the harness's own fixed set-up"));
        }
        println!("preflight: cedar code {} while the harness derived documents from seed {at}; the seed stays underived and the cases over it report the crash", if status.is_some() { "crashed the process" } else { "did not come back within 120 s" });
        skip.push(at);
    }
    let _ = std::fs::remove_file(&pf);
    harness_error("more than 12 seed documents crash cedar code during set-up");
}

fn run_world<W: World>(world: W, tier: Tier) -> i32 {
    let world = Arc::new(world);
    let seed = verif_seed();
    let vd = verif_dir();
    let known = Arc::new(load_known_findings(&vd));
    let runs = std::env::var("VERIF_RUNS").ok().and_then(|s| s.parse().ok()).unwrap_or_else(|| world.runs(tier));
    println!("cedar-sim: property={} world={} tier={} VERIF_SEED={} runs={} workers={}", world.property(), world.name(), tier.name(), seed, runs, workers());
    let res = run_batch(&world, seed, tier, runs, workers(), &known);

    // determinism self-test on a prefix of the same runs, with a different worker count
    let st_n = match tier {
        Tier::Quick => 40.min(runs),
        Tier::Thorough => 500.min(runs),
    };
    let mut selftest = json!({"seeds": st_n, "worker_counts": [1, workers()], "mismatches": 0, "cross_process": "done by ./check selftest (separate processes, diff of event logs)"});
    if res.first_violation.is_none() {
        let a = run_batch(&world, seed, tier, st_n, 1, &known);
        let b = run_batch(&world, seed, tier, st_n, 5, &known);
        if a.digest != b.digest {
            harness_error(&format!("determinism self-test failed for world {}: digest {:016x} (1 worker) vs {:016x} (5 workers)", world.name(), a.digest, b.digest));
        }
        selftest["prefix_digest"] = json!(format!("{:016x}", a.digest));
    }

    let mut exit = 0;
    let mut nviol = 0;
    if let Some((run, case, v)) = &res.first_violation {
        nviol = 1;
        println!("violation in run {run}: kind={} step={} sig={}", v.kind, v.step, v.signature);
        println!("  expected: {}", v.expected);
        println!("  observed: {}", v.observed);
        let (min_case, min_v, tried) = minimise(&world, case, v, &known);
        let path = write_replay(&vd, &world, seed, *run, &min_case, &min_v, case, tried);
        println!("minimised after {tried} candidates; replay file {path}");
        println!("  minimised: kind={} step={} expected: {} observed: {}", min_v.kind, min_v.step, min_v.expected, min_v.observed);
        // the replay must reproduce in a fresh process
        let exe = std::env::current_exe().unwrap_or_else(|_| "cedar-sim".into());
        let st = std::process::Command::new(exe).arg("replay").arg(&path).arg("--quiet").status();
        match st {
            Ok(s) if s.code() == Some(1) => {
                println!("VIOLATION property={} replay={}", world.property(), path);
                exit = 1;
            }
            other => {
                // Not reproduced alone in a fresh process. Either the harness is non-deterministic, or
                // the violation depends on state that earlier runs of the same worker process left
                // behind. Decide which: re-execute, in one fresh process, the runs that worker had
                // executed before (same order) followed by the failing run.
                let same_kind = |r: Isolated| -> Option<Violation> {
                    match r {
                        Isolated::Finished(Some(v2)) if v2.kind == v.kind => Some(v2),
                        _ => None,
                    }
                };
                let n = workers().max(1).min(runs.max(1) as usize) as u64;
                let gen = |i: u64| world.generate_indexed(i, case_seed(seed, world.name(), i), tier);
                let mut prefix: Vec<u64> = (0..*run).filter(|i| i % n == run % n).collect();
                let mut seq: Vec<_> = prefix.iter().map(|i| gen(*i)).collect();
                seq.push(case.clone());
                if same_kind(run_cases_isolated(&world, &seq, 600)).is_none() {
                    harness_error(&format!("violation did not reproduce from its replay file in a fresh process ({other:?}), nor from the sequence of runs its worker had executed; the harness is non-deterministic, nothing it says should be believed"));
                }
                // minimise the history: which earlier runs are needed?
                let mut tried2 = 0;
                let mut chunk = (prefix.len() / 2).max(1);
                while !prefix.is_empty() && tried2 < 80 {
                    let mut removed_any = false;
                    let mut start = 0;
                    while start < prefix.len() && tried2 < 80 {
                        let end = (start + chunk).min(prefix.len());
                        let cand: Vec<u64> = prefix[..start].iter().chain(prefix[end..].iter()).copied().collect();
                        let mut seq: Vec<_> = cand.iter().map(|i| gen(*i)).collect();
                        seq.push(case.clone());
                        tried2 += 1;
                        if same_kind(run_cases_isolated(&world, &seq, 600)).is_some() {
                            prefix = cand;
                            removed_any = true;
                        } else {
                            start += chunk;
                        }
                    }
                    if chunk == 1 && !removed_any {
                        break;
                    }
                    chunk = (chunk / 2).max(1);
                }
                let pre: Vec<_> = prefix.iter().map(|i| gen(*i)).collect();
                // with no earlier run needed, the case itself can still be minimised, one fresh process per candidate
                let (fin_case, fin_v, tried3) = if pre.is_empty() { minimise_opt(&world, case, v, &known, true) } else { (case.clone(), v.clone(), 0) };
                let path = write_replay_with(&vd, &world, seed, *run, &pre, &fin_case, &fin_v, case, tried + tried2 + tried3);
                if prefix.is_empty() {
                    println!("the code under test keeps process-wide state: candidates executed in one process influenced each other, so the case was minimised again with one fresh process per candidate; replay file {path}");
                } else {
                    println!("the violation depends on state left behind in the process by earlier run(s) {prefix:?}; replay file {path} carries them as `preceding`");
                }
                let exe = std::env::current_exe().unwrap_or_else(|_| "cedar-sim".into());
                let st = std::process::Command::new(exe).arg("replay").arg(&path).arg("--quiet").status();
                match st {
                    Ok(s) if s.code() == Some(1) => {
                        println!("VIOLATION property={} replay={}", world.property(), path);
                        exit = 1;
                    }
                    other => harness_error(&format!("cross-run violation did not reproduce from its replay file ({other:?})")),
                }
            }
        }
    }
    for (kind, m, what) in &res.obs.known_hits {
        println!("KNOWN-FINDING: property={} {} [kind={} match={}]", world.property(), what, kind, m);
    }
    if tier == Tier::Thorough {
        for p in world.reach_probes() {
            if res.obs.counters.get(p).copied().unwrap_or(0) == 0 {
                println!("WARNING: reach probe {p} stayed at zero");
            }
        }
    }
    write_evidence(
        &world,
        &res,
        EvidenceInput { verif_dir: &vd, tier, seed, wall_s: res.wall_s, violations: nviol, selftest, extra: json!({}) },
    );
    let evals = res.obs.counters.get(world.evaluations_counter()).copied().unwrap_or(0);
    println!(
        "done: runs={} evaluations={} nontrivial_distinct={} wall={:.1}s digest={:016x} violations={}",
        res.runs_done,
        evals,
        res.obs.sets.get(world.nontrivial_set()).map(|s| s.len()).unwrap_or(0),
        res.wall_s,
        res.digest,
        nviol
    );
    exit
}

fn replay_world<W: World>(world: W, rf: &ReplayFile, quiet: bool) -> i32 {
    let world = Arc::new(world);
    let known = Arc::new(load_known_findings(&verif_dir()));
    match replay(&world, rf, &known) {
        Some(v) => {
            if !quiet {
                println!("reproduced: kind={} step={}\n  expected: {}\n  observed: {}", v.kind, v.step, v.expected, v.observed);
                println!("VIOLATION property={} replay={}", rf.property, std::env::args().nth(2).unwrap_or_default());
            }
            1
        }
        None => {
            if !quiet {
                println!("replay: no violation (the recorded violation does not reproduce on this tree)");
            }
            0
        }
    }
}

fn worker_world<W: World>(world: W, args: &[String]) -> i32 {
    // worker <world> <tier> <seed> <runs> <k> <n> <out> <stopfile>
    let world = Arc::new(world);
    let known = Arc::new(load_known_findings(&verif_dir()));
    let tier = if args.get(3).map(|s| s.as_str()) == Some("thorough") { Tier::Thorough } else { Tier::Quick };
    let p = |i: usize| -> u64 { args.get(i).and_then(|s| s.parse().ok()).unwrap_or_else(|| harness_error("bad worker arguments")) };
    worker_main(&world, p(4), tier, p(5), p(6), p(7), &args[8], &args[9], &known)
}

/// execute one case read from a file, in this (child) process; used for crash isolation
fn exec_case_world<W: World>(world: W, args: &[String]) -> i32 {
    let world = Arc::new(world);
    let known = Arc::new(load_known_findings(&verif_dir()));
    let s = std::fs::read_to_string(&args[3]).unwrap_or_else(|e| harness_error(&format!("cannot read case file: {e}")));
    // a sequence of cases, executed one after the other in this process; the verdict is about the last
    let cases: Vec<W::Case> = serde_json::from_str(&s).unwrap_or_else(|e| harness_error(&format!("bad case file: {e}")));
    let mut last = None;
    for case in &cases {
        last = run_case(&world, case, &known, false).violation;
    }
    let _ = std::fs::write(&args[4], serde_json::to_string(&last).unwrap_or_else(|_| "null".into()));
    0
}

/// print per-run digests, for the cross-process determinism diff
fn digest_world<W: World>(world: W, n: u64, workers: usize) -> i32 {
    let world = Arc::new(world);
    let known = Arc::new(load_known_findings(&verif_dir()));
    let seed = verif_seed();
    // full event logs, in run order
    let idx: Vec<u64> = (0..n).collect();
    let results: Arc<std::sync::Mutex<Vec<(u64, u64, Vec<String>)>>> = Arc::new(std::sync::Mutex::new(vec![]));
    let next = Arc::new(std::sync::atomic::AtomicU64::new(0));
    let mut hs = vec![];
    for _ in 0..workers.max(1) {
        let world = world.clone();
        let known = known.clone();
        let results = results.clone();
        let next = next.clone();
        let total = idx.len() as u64;
        hs.push(std::thread::spawn(move || loop {
            let i = next.fetch_add(1, std::sync::atomic::Ordering::SeqCst);
            if i >= total {
                break;
            }
            let case = world.generate_indexed(i, case_seed(seed, world.name(), i), Tier::Quick);
            let out = run_case(&world, &case, &known, true);
            let mut log = out.obs.log;
            if let Some(v) = out.violation {
                log.push(format!("VIOLATION {} {}", v.kind, v.step));
            }
            results.lock().unwrap_or_else(|e| e.into_inner()).push((i, out.obs.digest, log));
        }));
    }
    for h in hs {
        let _ = h.join();
    }
    let mut r = std::mem::take(&mut *results.lock().unwrap_or_else(|e| e.into_inner()));
    r.sort();
    for (i, d, log) in r {
        println!("run {i} digest {d:016x} events {}", log.len());
        for l in log {
            println!("  {l}");
        }
    }
    0
}

macro_rules! dispatch {
    ($name:expr, $f:ident $(, $arg:expr)*) => {
        match $name {
            "hierarchy" | "C04" => $f(worlds::hierarchy::Hierarchy $(, $arg)*),
            "authz" | "C01" => $f(worlds::authz::Authz $(, $arg)*),
            "policyset" | "C08" => $f(worlds::policyset::PolicySetWorld $(, $arg)*),
            "frontends" | "C19" => $f(worlds::frontends::Frontends $(, $arg)*),
            "storagefaults" | "C20" => $f(worlds::storagefaults::StorageFaults $(, $arg)*),
            "batched" | "C15" => $f(worlds::batched::Batched $(, $arg)*),
            other => harness_error(&format!("unknown world/property {other}")),
        }
    };
}

extern "C" {
    fn prctl(option: i32, arg2: u64, arg3: u64, arg4: u64, arg5: u64) -> i32;
    fn mallopt(param: i32, value: i32) -> i32;
}

fn main() {
    // Transparent huge pages make every fresh thread stack / malloc arena cost a 2 MiB page
    // clear; with one fresh thread per run that dominated the run time. Performance only.
    if std::env::var("VERIF_KEEP_THP").is_err() {
        unsafe {
            let _ = prctl(41 /* PR_SET_THP_DISABLE */, 1, 0, 0, 0);
        }
    }
    // panics inside cedar are caught and reported as violations; keep stderr quiet
    if std::env::var("VERIF_SHOW_PANICS").is_err() {
        std::panic::set_hook(Box::new(|_| {}));
    }
    let args: Vec<String> = std::env::args().collect();
    if matches!(args.get(1).map(|s| s.as_str()), Some("worker") | Some("exec-case")) {
        // never outlive the process that started us (a case may loop forever)
        unsafe {
            let _ = prctl(1 /* PR_SET_PDEATHSIG */, 9 /* SIGKILL */, 0, 0, 0);
        }
    }
    if args.get(1).map(|s| s.as_str()) == Some("worker") && std::env::var("VERIF_KEEP_MALLOC").is_err() {
        // a worker process has one active thread at a time: one arena, never trimmed, so that a
        // fresh thread per run does not mean fresh heap pages per run. Performance only.
        unsafe {
            let _ = mallopt(-8 /* M_ARENA_MAX */, 1);
            let _ = mallopt(-1 /* M_TRIM_THRESHOLD */, 1 << 30);
            let _ = mallopt(-2 /* M_TOP_PAD */, 64 << 20);
        }
    }
    if args.len() < 2 {
        harness_error("usage: cedar-sim run <world|ID> <quick|thorough> | replay <file> | digest <world> <n> <workers>");
    }
    if args[1] == "preflight" {
        // child of `preflight()`: build every lazy, then leave; the parent looks at how we ended
        hashseam::set_thread_hash_seed(0x00C0_FFEE);
        worlds::storagefaults::warm_up();
        std::process::exit(0);
    }
    if matches!(args[1].as_str(), "run" | "replay" | "digest") && std::env::var("VERIF_POOL_SKIP").is_err() {
        let skip = preflight();
        // before any thread exists; inherited by every worker and case child
        std::env::set_var("VERIF_POOL_SKIP", skip.join(","));
    }
    // cedar code runs on the main thread while warming up; if it does not come back, say so
    // instead of hanging (exit 2: nothing was decided)
    let warm_done = Arc::new(std::sync::atomic::AtomicBool::new(false));
    {
        let wd = warm_done.clone();
        std::thread::spawn(move || {
            for _ in 0..600 {
                std::thread::sleep(std::time::Duration::from_millis(500));
                if wd.load(std::sync::atomic::Ordering::SeqCst) {
                    return;
                }
            }
            harness_error("warm-up did not finish within 300 s: cedar code hangs on one of the harness's own fixed documents");
        });
    }
    // a panic while warming up (cedar code on the main thread) is reported, never silent
    if let Err(p) = std::panic::catch_unwind(warm_up) {
        harness_error(&format!("panic during warm-up (cedar code run on the main thread panicked): {}", hashseam::panic_message(&p)));
    }
    warm_done.store(true, std::sync::atomic::Ordering::SeqCst);
    let code = match args[1].as_str() {
        "run" => {
            let tier = match args.get(3).map(|s| s.as_str()) {
                Some("thorough") => Tier::Thorough,
                _ => Tier::Quick,
            };
            let name = args.get(2).map(|s| s.as_str()).unwrap_or("");
            dispatch!(name, run_world, tier)
        }
        "replay" => {
            let path = args.get(2).cloned().unwrap_or_default();
            let quiet = args.iter().any(|a| a == "--quiet");
            let s = std::fs::read_to_string(&path).unwrap_or_else(|e| harness_error(&format!("cannot read replay file {path}: {e}")));
            let rf: ReplayFile = serde_json::from_str(&s).unwrap_or_else(|e| harness_error(&format!("bad replay file {path}: {e}")));
            let name = rf.world.clone();
            dispatch!(name.as_str(), replay_world, &rf, quiet)
        }
        "worker" => {
            let name = args.get(2).map(|s| s.as_str()).unwrap_or("");
            dispatch!(name, worker_world, &args)
        }
        "exec-case" => {
            let name = args.get(2).map(|s| s.as_str()).unwrap_or("");
            dispatch!(name, exec_case_world, &args)
        }
        "debug-exhaustive" => {
            let p = worlds::storagefaults::pools();
            let mut by: std::collections::BTreeMap<(u8, String), usize> = Default::default();
            for (si, k, _) in &p.exhaustive_quick {
                let fam = if *k == 6 { "tokens".to_string() } else { let n = &p.seeds[*si as usize].name; n.split("_of_").next().unwrap_or("").split("__").next().unwrap_or("").chars().take(12).collect() };
                *by.entry((*k, fam)).or_default() += 1;
            }
            for ((k, f), n) in by { println!("kind {k} {f}: {n}"); }
            println!("seeds {} quick {} full {}", p.seeds.len(), p.exhaustive_quick.len(), p.exhaustive.len());
            0
        }
        "debug-bundles" => {
            for (k, b) in &worlds::storagefaults::pools().bundles {
                println!("{k}: entities={} schema={} requests={}", b.entities.len(), b.schema.is_some(), b.requests.len());
            }
            0
        }
        "worlds" => {
            println!("hierarchy");
            println!("batched");
            println!("authz");
            println!("policyset");
            println!("frontends");
            println!("storagefaults");
            0
        }
        "digest" => {
            let name = args.get(2).map(|s| s.as_str()).unwrap_or("");
            let n: u64 = args.get(3).and_then(|s| s.parse().ok()).unwrap_or(50);
            let w: usize = args.get(4).and_then(|s| s.parse().ok()).unwrap_or(1);
            dispatch!(name, digest_world, n, w)
        }
        other => harness_error(&format!("unknown command {other}")),
    };
    std::process::exit(code);
}
