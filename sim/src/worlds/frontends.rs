//! World `frontends` (C19): JSON/FFI entry points, the thread-local stateful cache driven from
//! several parked caller threads, and the real `cedar` CLI over a faulty file store; the Rust
//! API fed the same documents (assembled independently, the documented way) is the reference.

use crate::core::*;
use crate::hashseam::Caller;
use crate::rng::{mix, tag, Rng};
use crate::worlds::batched::{SCHEMA_SRC, SHAPES};
use cedar_policy::ffi;
use cedar_policy::{Authorizer, Context, Decision, Entities, EntityUid, Policy, PolicyId, PolicySet, Request, Schema, SchemaFragment, SlotId, Template, ValidationMode, Validator};
use cedar_policy_formatter::{policies_str_to_pretty, Config};
use serde::{Deserialize, Serialize};
use serde_json::{json, Value};
use std::collections::{BTreeMap, BTreeSet, HashMap};
use std::str::FromStr;

pub const TEMPLATES: &[&str] = &[
    r#"permit(principal == ?principal, action, resource);"#,
    r#"permit(principal in ?principal, action in [Action::"view", Action::"edit"], resource) when { resource.public };"#,
    r#"forbid(principal, action, resource in ?resource) unless { principal.active };"#,
    r#"permit(principal == ?principal, action == Action::"view", resource == ?resource);"#,
    r#"@why("t") forbid(principal in ?principal, action, resource in ?resource) when { context.n > 3 };"#,
    // templates with validation findings
    r#"permit(principal == ?principal, action, resource) when { principal.nope == 1 };"#,
    r#"forbid(principal, action == Action::"view", resource in ?resource) when { resource.owner.level == "x" || false };"#,
    r#"permit(principal in ?principal, action, resource == ?resource) when { false };"#,
];
/// (has ?principal, has ?resource)
pub const TEMPLATE_SLOTS: &[(bool, bool)] = &[(true, false), (true, false), (false, true), (true, true), (true, true), (true, false), (false, true), (true, true)];

/// policies that parse but do not validate against the schema, or that error at run time
pub const ODD_POLICIES: &[&str] = &[
    r#"permit(principal, action, resource) when { principal.nope == 1 };"#,
    r#"permit(principal, action, resource) when { resource.owner.level == "x" };"#,
    r#"forbid(principal, action, resource) when { 1 + "a" == 2 };"#,
    r#"permit(principal, action, resource) when { context.n + 9223372036854775807 > 0 };"#,
    r#"permit(principal, action, resource);"#,
    r#"forbid(principal, action == Action::"edit", resource) when { context.n > 2 };"#,
    // validate with warnings but no errors
    r#"permit(principal, action, resource) when { false };"#,
    r#"permit(principal, action == Action::"browse", resource) when { resource.depth > 3 && false };"#,
    r#"@note("\u{202e}bidi") permit(principal, action, resource) when { principal.level > 1 && "a\u{202e}b" == "x" };"#,
];

pub const SCHEMA_VARIANT: &str = r#"
entity Group in [Group];
entity User in [Group] = { level: Long, active: Bool, manager?: User, friends: Set<User>, home?: Folder, profile: { dept: String, boss?: User, ip: ipaddr } };
entity Folder in [Folder] = { admin?: User, depth: Long };
entity Doc in [Folder] = { owner: User, readers: Set<User>, parent?: Doc, public: Bool, team?: Group, score: decimal, meta?: { reviewers: Set<User>, lead?: User }, auditor?: A::Acct } tags String;
namespace A { entity Acct; }
namespace B { entity Acct; }
action anyop;
action readonly in [anyop];
action view in [readonly] appliesTo { principal: [User], resource: [Doc], context: { via?: User, n: Long, docs?: Set<Doc>, ext?: B::Acct } };
action edit in [anyop] appliesTo { principal: [User], resource: [Doc], context: { via?: User, n: Long, docs?: Set<Doc>, ext?: B::Acct } };
action browse in [readonly] appliesTo { principal: [User], resource: [Folder], context: { via?: User, n: Long, docs?: Set<Doc>, ext?: B::Acct } };
action admin appliesTo { principal: [User], resource: [Folder, Doc], context: { n: Long } };
"#;
pub const SCHEMA_BROKEN_SYNTAX: &str = "entity User in [Group = { level: Long };";
pub const SCHEMA_BROKEN_SEMANTICS: &str = "entity User in [Nowhere] = { level: Missing };\naction view appliesTo { principal: [User], resource: [User] };";

#[derive(Clone, Debug, Serialize, Deserialize, PartialEq)]
pub struct LinkDoc {
    pub tid: String,
    pub id: String,
    pub p: Option<String>,
    pub r: Option<String>,
}

#[derive(Clone, Debug, Serialize, Deserialize, PartialEq)]
pub struct PsDoc {
    pub statics: Vec<(String, String)>,
    pub templates: Vec<(String, String)>,
    pub links: Vec<LinkDoc>,
}

#[derive(Clone, Debug, Serialize, Deserialize, PartialEq)]
pub struct ReqDoc {
    pub p: String,
    pub a: String,
    pub r: String,
    pub ctx: Value,
    /// 0: {"type","id"}; 1: {"__entity": {"type","id"}}
    pub uid_form: u8,
}

#[derive(Clone, Debug, Serialize, Deserialize, PartialEq)]
#[serde(tag = "op")]
pub enum Op {
    /// stateless FFI authorization vs the API
    Authorize { thread: u8, ps: u8, render: u8, schema: Option<(u8, u8)>, validate_request: bool, store: u8, implicit: bool, req: ReqDoc },
    PreparsePs { thread: u8, name: u8, ps: u8, render: u8 },
    PreparseSchema { thread: u8, name: u8, schema: u8, render: u8 },
    Stateful { thread: u8, ps_name: u8, schema_name: Option<u8>, validate_request: bool, store: u8, implicit: bool, req: ReqDoc },
    Validate { thread: u8, ps: u8, render: u8, schema: u8, srender: u8, permissive: bool },
    Format { thread: u8, ps: u8, width: u16, indent: u8 },
    Convert { thread: u8, kind: u8, ps: u8, schema: u8 },
    CheckParse { thread: u8, kind: u8, ps: u8, render: u8, schema: u8, srender: u8, store: u8, #[serde(default)] req: Option<ReqDoc> },
    /// partial-evaluation FFI (principal / resource possibly unknown) vs `Authorizer::is_authorized_partial`
    Partial { thread: u8, ps: u8, render: u8, schema: Option<(u8, u8)>, validate_request: bool, store: u8, implicit: bool, req: ReqDoc, unknown: u8 },
    /// the real `cedar` binary over a simulated disk with file faults
    Cli { thread: u8, cli: crate::worlds::frontends_cli::CliOp },
}

#[derive(Clone, Debug, Serialize, Deserialize)]
pub struct Case {
    pub hash_seed: u64,
    pub thread_seeds: Vec<u64>,
    pub psets: Vec<PsDoc>,
    pub stores: Vec<Vec<Value>>,
    pub ops: Vec<Op>,
}

const NAMES: [&str; 3] = ["main", "other", ""];
/// a valid schema with namespaces, common types, an enumerated entity type, tags and annotations
pub const SCHEMA_RICH: &str = r#"
namespace Org {
  type Address = { street: String, zip?: Long };
  type Ids = Set<Long>;
  entity Team in [Team];
  entity Person in [Team] = { addr: Address, ids: Ids, boss?: Person, kind: Kind } tags String;
  entity Kind enum ["staff", "guest"];
  @doc("read") action read appliesTo { principal: [Person], resource: [Person, Team], context: { addr?: Address } };
  action "write all" in [read] appliesTo { principal: [Person], resource: [Team] };
}
entity Top;
action top appliesTo { principal: [Top, Org::Person], resource: [Top] };
"#;
/// parses, but an entity position names something that is only a common type
pub const SCHEMA_ENTITY_REF_TO_COMMON: &str = "type Foo = { a: Long };
entity User in [Foo] = { f: Foo };
action view appliesTo { principal: [User], resource: [User] };";
/// parses, but the common types refer to each other
pub const SCHEMA_TYPE_CYCLE: &str = "type A = B;
type B = Set<A>;
entity User = { a: A };
action view appliesTo { principal: [User], resource: [User] };";
/// valid; common type names shadow nothing but look like entity names
pub const SCHEMA_COMMON_HEAVY: &str = "type Name = String;
type Pair = { left: Name, right: Name };
entity User = { name: Name, pairs: Set<Pair>, peer?: User };
action view, edit appliesTo { principal: [User], resource: [User], context: Pair };";
pub const SCHEMAS: [&str; 8] = [SCHEMA_SRC, SCHEMA_VARIANT, SCHEMA_BROKEN_SYNTAX, SCHEMA_BROKEN_SEMANTICS, SCHEMA_RICH, SCHEMA_ENTITY_REF_TO_COMMON, SCHEMA_TYPE_CYCLE, SCHEMA_COMMON_HEAVY];

// ------------------------------------------------------------------ document rendering

fn uid_json(s: &str, form: u8) -> Value {
    // s is `Type::"id"`
    let (t, i) = match s.split_once("::\"") {
        Some((t, rest)) => (t.to_string(), rest.trim_end_matches('"').to_string()),
        None => (s.to_string(), String::new()),
    };
    if form == 0 {
        json!({"type": t, "id": i})
    } else {
        json!({"__entity": {"type": t, "id": i}})
    }
}

pub fn schema_json(idx: u8) -> Value {
    // JSON rendering of the schema documents; computed through the API from the Cedar text for the
    // valid ones (the result is just another input document), hand-written for the broken ones
    match idx % 8 {
        0 | 1 | 4 | 7 => SchemaFragment::from_cedarschema_str(SCHEMAS[idx as usize % 8]).ok().and_then(|(f, _)| f.to_json_value().ok()).unwrap_or(json!({})),
        // an explicit entity reference to a name that is declared only as a common type
        5 => json!({"": {"commonTypes": {"Foo": {"type": "Record", "attributes": {"a": {"type": "Long"}}}}, "entityTypes": {"User": {"shape": {"type": "Record", "attributes": {"f": {"type": "Entity", "name": "Foo"}, "g": {"type": "EntityOrCommon", "name": "Foo"}}}}}, "actions": {"view": {"appliesTo": {"principalTypes": ["User"], "resourceTypes": ["User"]}}}}}),
        6 => json!({"": {"commonTypes": {"A": {"type": "B"}, "B": {"type": "Set", "element": {"type": "A"}}}, "entityTypes": {"User": {"shape": {"type": "Record", "attributes": {"a": {"type": "A"}}}}}, "actions": {"view": {"appliesTo": {"principalTypes": ["User"], "resourceTypes": ["User"]}}}}}),
        2 => json!({"": {"entityTypes": {"User": {"shape": {"type": "Record", "attributes": {"level": {"type": 7}}}}}, "actions": {}}}),
        _ => json!({"": {"entityTypes": {"User": {"memberOfTypes": ["Nowhere"], "shape": {"type": "Record", "attributes": {"level": {"type": "Missing"}}}}}, "actions": {"view": {"appliesTo": {"principalTypes": ["User"], "resourceTypes": ["User"]}}}}}),
    }
}

fn schema_doc(idx: u8, render: u8) -> Value {
    if render % 2 == 0 {
        Value::String(SCHEMAS[idx as usize % 8].to_string())
    } else {
        schema_json(idx)
    }
}

/// reference: parse a schema document through the API
fn api_schema(idx: u8, render: u8) -> Result<Schema, String> {
    if render % 2 == 0 {
        let (f, _) = SchemaFragment::from_cedarschema_str(SCHEMAS[idx as usize % 8]).map_err(|e| e.to_string())?;
        TryInto::<Schema>::try_into(f).map_err(|e| e.to_string())
    } else {
        let f = SchemaFragment::from_json_value(schema_json(idx)).map_err(|e| e.to_string())?;
        TryInto::<Schema>::try_into(f).map_err(|e| e.to_string())
    }
}

/// FFI policy-set document for a logical policy set.
/// render: 0 concatenated text; 1 map id->text; 2 map id->JSON; 3 array of text; 4 map, alternating JSON/text.
/// bit 3 (8): templates as JSON.
fn ps_doc(ps: &PsDoc, render: u8) -> Value {
    let shape = render % 8 % 5;
    let tjson = render & 8 != 0;
    let est = |text: &str| Policy::parse(None, text).ok().and_then(|p| p.to_json().ok());
    let test = |text: &str| Template::parse(None, text).ok().and_then(|p| p.to_json().ok());
    let statics: Value = match shape {
        0 => Value::String(ps.statics.iter().map(|(_, t)| t.clone()).collect::<Vec<_>>().join("\n")),
        3 => Value::Array(ps.statics.iter().map(|(_, t)| Value::String(t.clone())).collect()),
        _ => {
            let mut m = serde_json::Map::new();
            for (k, (id, text)) in ps.statics.iter().enumerate() {
                let as_json = shape == 2 || (shape == 4 && k % 2 == 0);
                let v = if as_json { est(text).unwrap_or(Value::String(text.clone())) } else { Value::String(text.clone()) };
                m.insert(id.clone(), v);
            }
            Value::Object(m)
        }
    };
    let mut tm = serde_json::Map::new();
    for (id, text) in &ps.templates {
        let v = if tjson { test(text).unwrap_or(Value::String(text.clone())) } else { Value::String(text.clone()) };
        tm.insert(id.clone(), v);
    }
    let links: Vec<Value> = ps
        .links
        .iter()
        .map(|l| {
            let mut vals = serde_json::Map::new();
            if let Some(p) = &l.p {
                vals.insert("?principal".into(), uid_json(p, 0));
            }
            if let Some(r) = &l.r {
                vals.insert("?resource".into(), uid_json(r, 1));
            }
            json!({"templateId": l.tid, "newId": l.id, "values": vals})
        })
        .collect();
    json!({"staticPolicies": statics, "templates": tm, "templateLinks": links})
}

/// reference: assemble the same policy set through the API, the documented way
fn api_policy_set(ps: &PsDoc, render: u8) -> Result<PolicySet, String> {
    let shape = render % 8 % 5;
    let tjson = render & 8 != 0;
    let mut errs: Vec<String> = vec![];
    let mut set = match shape {
        0 => {
            let text = ps.statics.iter().map(|(_, t)| t.clone()).collect::<Vec<_>>().join("\n");
            match PolicySet::from_str(&text) {
                Ok(s) => {
                    if s.templates().count() > 0 {
                        errs.push("static policy set includes a template".into());
                        PolicySet::new()
                    } else {
                        s
                    }
                }
                Err(e) => {
                    errs.push(e.to_string());
                    PolicySet::new()
                }
            }
        }
        _ => {
            let mut pols = vec![];
            // a JSON object cannot hold the same key twice: the last one wins when the document is built
            let mut seen: BTreeMap<String, usize> = BTreeMap::new();
            if shape != 3 {
                for (k, (id, _)) in ps.statics.iter().enumerate() {
                    seen.insert(id.clone(), k);
                }
            }
            for (k, (id, text)) in ps.statics.iter().enumerate() {
                if shape != 3 && seen.get(id) != Some(&k) {
                    continue;
                }
                let idv = if shape == 3 { None } else { Some(PolicyId::new(id)) };
                let as_json = shape == 2 || (shape == 4 && k % 2 == 0);
                let r = if as_json {
                    match Policy::parse(None, text).ok().and_then(|p| p.to_json().ok()) {
                        Some(j) => Policy::from_json(idv, j).map_err(|e| e.to_string()),
                        None => Policy::parse(idv, text).map_err(|e| e.to_string()),
                    }
                } else {
                    Policy::parse(idv, text).map_err(|e| e.to_string())
                };
                match r {
                    Ok(p) => pols.push(p),
                    Err(e) => errs.push(e),
                }
            }
            if errs.is_empty() {
                match PolicySet::from_policies(pols) {
                    Ok(s) => s,
                    Err(e) => {
                        errs.push(e.to_string());
                        PolicySet::new()
                    }
                }
            } else {
                PolicySet::new()
            }
        }
    };
    let mut tseen: BTreeMap<String, usize> = BTreeMap::new();
    for (k, (id, _)) in ps.templates.iter().enumerate() {
        tseen.insert(id.clone(), k);
    }
    for (k, (id, text)) in ps.templates.iter().enumerate() {
        if tseen.get(id) != Some(&k) {
            continue;
        }
        let idv = Some(PolicyId::new(id));
        let r = if tjson {
            match Template::parse(None, text).ok().and_then(|p| p.to_json().ok()) {
                Some(j) => Template::from_json(idv, j).map_err(|e| e.to_string()),
                None => Template::parse(idv, text).map_err(|e| e.to_string()),
            }
        } else {
            Template::parse(idv, text).map_err(|e| e.to_string())
        };
        match r.and_then(|t| set.add_template(t).map_err(|e| e.to_string())) {
            Ok(()) => {}
            Err(e) => errs.push(e),
        }
    }
    for l in &ps.links {
        let mut vals = HashMap::new();
        let mut bad = false;
        if let Some(p) = &l.p {
            match EntityUid::from_str(p) {
                Ok(u) => {
                    vals.insert(SlotId::principal(), u);
                }
                Err(_) => bad = true,
            }
        }
        if let Some(r) = &l.r {
            match EntityUid::from_str(r) {
                Ok(u) => {
                    vals.insert(SlotId::resource(), u);
                }
                Err(_) => bad = true,
            }
        }
        if bad {
            errs.push("bad link value".into());
            continue;
        }
        if let Err(e) = set.link(PolicyId::new(&l.tid), PolicyId::new(&l.id), vals) {
            errs.push(e.to_string());
        }
    }
    if errs.is_empty() {
        Ok(set)
    } else {
        Err(errs.join("; "))
    }
}

fn store_doc(ents: &[Value], implicit: bool) -> Value {
    if !implicit {
        return Value::Array(ents.to_vec());
    }
    // schema-implicit form: entity references without the `__entity` escape
    fn strip(v: &Value) -> Value {
        match v {
            Value::Object(m) => {
                if let (1, Some(inner)) = (m.len(), m.get("__entity")) {
                    return inner.clone();
                }
                Value::Object(m.iter().map(|(k, x)| (k.clone(), strip(x))).collect())
            }
            Value::Array(a) => Value::Array(a.iter().map(strip).collect()),
            x => x.clone(),
        }
    }
    Value::Array(ents.iter().map(strip).collect())
}

/// comparable form of an authorization answer: Err(()) = failure; Ok((allow, reasons, error ids))
type Outcome = Result<(bool, BTreeSet<String>, BTreeSet<String>), ()>;

fn ffi_outcome(ans: &Value) -> Result<Outcome, String> {
    match ans.get("type").and_then(|t| t.as_str()) {
        Some("failure") => Ok(Err(())),
        Some("success") => {
            let r = ans.get("response").ok_or("no response")?;
            let d = r.get("decision").and_then(|d| d.as_str()).ok_or("no decision")?;
            let diag = r.get("diagnostics").ok_or("no diagnostics")?;
            let reasons: BTreeSet<String> = diag.get("reason").and_then(|x| x.as_array()).ok_or("no reason")?.iter().filter_map(|x| x.as_str().map(String::from)).collect();
            let errs: Vec<String> = diag.get("errors").and_then(|x| x.as_array()).ok_or("no errors")?.iter().filter_map(|x| x.get("policyId").and_then(|p| p.as_str()).map(String::from)).collect();
            Ok(Ok((d == "allow", reasons, errs.into_iter().collect())))
        }
        other => Err(format!("unexpected answer type {other:?}")),
    }
}

fn raw(p: &PolicyId) -> String {
    let s: &str = p.as_ref();
    s.to_string()
}

#[allow(clippy::too_many_arguments)]
fn api_authorize(ps: &PsDoc, render: u8, schema: Option<(u8, u8)>, validate_request: bool, store: &[Value], implicit: bool, req: &ReqDoc) -> Outcome {
    let schema = match schema {
        Some((i, r)) => Some(api_schema(i, r).map_err(|_| ())?),
        None => None,
    };
    let p = EntityUid::from_json(uid_json(&req.p, req.uid_form)).map_err(|_| ())?;
    let a = EntityUid::from_json(uid_json(&req.a, req.uid_form)).map_err(|_| ())?;
    let r = EntityUid::from_json(uid_json(&req.r, req.uid_form)).map_err(|_| ())?;
    let ctx = Context::from_json_value(req.ctx.clone(), schema.as_ref().map(|s| (s, &a))).map_err(|_| ())?;
    let request = Request::new(p, a, r, ctx, if validate_request { schema.as_ref() } else { None });
    let entities = Entities::from_json_value(store_doc(store, implicit), schema.as_ref());
    let policies = api_policy_set(ps, render);
    let (Ok(request), Ok(entities), Ok(policies)) = (request, entities, policies) else { return Err(()) };
    let resp = Authorizer::new().is_authorized(&request, &policies, &entities);
    let reasons = resp.diagnostics().reason().map(raw).collect();
    let errs = resp
        .diagnostics()
        .errors()
        .map(|e| match e {
            cedar_policy::AuthorizationError::PolicyEvaluationError(pe) => raw(pe.policy_id()),
        })
        .collect();
    Ok((resp.decision() == Decision::Allow, reasons, errs))
}

fn auth_call_json(ps: &PsDoc, render: u8, schema: Option<(u8, u8)>, validate_request: bool, store: &[Value], implicit: bool, req: &ReqDoc) -> Value {
    let mut call = json!({
        "principal": uid_json(&req.p, req.uid_form),
        "action": uid_json(&req.a, req.uid_form),
        "resource": uid_json(&req.r, req.uid_form),
        "context": req.ctx,
        "policies": ps_doc(ps, render),
        "entities": store_doc(store, implicit),
    });
    if let Some((i, r)) = schema {
        call["schema"] = schema_doc(i, r);
    }
    if !validate_request {
        call["validateRequest"] = json!(false);
    }
    call
}

// ------------------------------------------------------------------ per-op job (runs on a caller thread)

/// What a job reports back to the simulator thread
#[derive(Debug)]
pub struct JobResult {
    pub violation: Option<Violation>,
    pub events: Vec<String>,
    pub counts: Vec<(&'static str, u64)>,
    /// for preparse ops: did the registration succeed
    pub registered: Option<bool>,
}

fn jr() -> JobResult {
    JobResult { violation: None, events: vec![], counts: vec![], registered: None }
}

fn viol(kind: &str, sig: &str, step: usize, exp: String, obs: String) -> Option<Violation> {
    Some(Violation::new(kind, sig, step, exp, obs))
}

fn show(o: &Outcome) -> String {
    match o {
        Err(()) => "Failure".into(),
        Ok((a, r, e)) => format!("{} reasons {:?} errors {:?}", if *a { "Allow" } else { "Deny" }, r, e),
    }
}

fn do_authorize(step: usize, ps: &PsDoc, render: u8, schema: Option<(u8, u8)>, validate_request: bool, store: &[Value], implicit: bool, req: &ReqDoc) -> JobResult {
    let mut out = jr();
    let call = auth_call_json(ps, render, schema, validate_request, store, implicit, req);
    // bit 4 of `render`: the call travels as a string (`*_json_str`), as the language bindings send it
    let ans = if render & 16 != 0 {
        out.counts.push(("route.json_str", 1));
        ffi::is_authorized_json_str(&call.to_string()).and_then(|s| serde_json::from_str::<Value>(&s))
    } else {
        ffi::is_authorized_json(call)
    };
    let ans = match ans {
        Ok(a) => a,
        Err(e) => {
            out.violation = viol("ffi_rejects_call_shape", "is_authorized_json", step, "the call document deserialises".into(), e.to_string());
            return out;
        }
    };
    let got = match ffi_outcome(&ans) {
        Ok(g) => g,
        Err(e) => {
            out.violation = viol("ffi_answer_shape", "is_authorized_json", step, "a success or failure answer".into(), e);
            return out;
        }
    };
    let want = api_authorize(ps, render, schema, validate_request, store, implicit, req);
    out.events.push(format!("{step} authorize -> {}", show(&got)));
    out.counts.push(("evaluations", 1));
    if got.is_ok() {
        out.counts.push(("ffi_authorize_success", 1));
    } else {
        out.counts.push(("designed_failures_observed", 1));
    }
    if got != want {
        let kind = match (&got, &want) {
            (Ok(_), Err(_)) | (Err(_), Ok(_)) => "ffi_success_vs_failure",
            (Ok(g), Ok(w)) if g.0 != w.0 => "ffi_decision",
            (Ok(g), Ok(w)) if g.1 != w.1 => "ffi_reasons",
            _ => "ffi_error_ids",
        };
        out.violation = viol(kind, &format!("stateless authorize render{}", render % 8 % 5), step, format!("API: {}", show(&want)), format!("FFI: {}", show(&got)));
    }
    out
}

/// comparable form of a partial-authorization answer: Err(()) = failure;
/// Ok((decision, satisfied, errored, may be determining, must be determining, all residual ids, non-trivial residual ids))
type POutcome = Result<(Option<bool>, BTreeSet<String>, BTreeSet<String>, BTreeSet<String>, BTreeSet<String>, BTreeSet<String>, BTreeSet<String>), ()>;

#[allow(clippy::too_many_arguments)]
fn api_partial(ps: &PsDoc, render: u8, schema: Option<(u8, u8)>, validate_request: bool, store: &[Value], implicit: bool, req: &ReqDoc, unknown: u8) -> POutcome {
    let schema = match schema {
        Some((i, r)) => Some(api_schema(i, r).map_err(|_| ())?),
        None => None,
    };
    let mut b = Request::builder();
    if unknown & 1 == 0 {
        b = b.principal(EntityUid::from_json(uid_json(&req.p, req.uid_form)).map_err(|_| ())?);
    }
    let a = EntityUid::from_json(uid_json(&req.a, req.uid_form)).map_err(|_| ())?;
    b = b.action(a.clone());
    if unknown & 2 == 0 {
        b = b.resource(EntityUid::from_json(uid_json(&req.r, req.uid_form)).map_err(|_| ())?);
    }
    let ctx = Context::from_json_value(req.ctx.clone(), schema.as_ref().map(|s| (s, &a))).map_err(|_| ())?;
    b = b.context(ctx);
    let entities = Entities::from_json_value(store_doc(store, implicit), schema.as_ref());
    let policies = api_policy_set(ps, render);
    let request = match (&schema, validate_request) {
        (Some(s), true) => b.schema(s).build().map_err(|_| ()),
        _ => Ok(b.build()),
    };
    let (Ok(request), Ok(entities), Ok(policies)) = (request, entities, policies) else { return Err(()) };
    let resp = Authorizer::new().is_authorized_partial(&request, &policies, &entities);
    // the FFI answer carries every residual as a JSON policy: a residual that has no JSON form is a failure there
    if resp.all_residuals().any(|p| p.to_json().is_err()) {
        return Err(());
    }
    Ok((
        resp.decision().map(|d| d == Decision::Allow),
        resp.definitely_satisfied().map(|p| raw(p.id())).collect(),
        resp.definitely_errored().map(raw).collect(),
        resp.may_be_determining().map(|p| raw(p.id())).collect(),
        resp.must_be_determining().map(|p| raw(p.id())).collect(),
        resp.all_residuals().map(|p| raw(p.id())).collect(),
        resp.nontrivial_residuals().map(|p| raw(p.id())).collect(),
    ))
}

fn ffi_poutcome(ans: &Value) -> Result<POutcome, String> {
    match ans.get("type").and_then(|t| t.as_str()) {
        Some("failure") => Ok(Err(())),
        Some("residuals") => {
            let r = ans.get("response").ok_or("no response")?;
            let d = match r.get("decision") {
                None | Some(Value::Null) => None,
                Some(Value::String(s)) => Some(s == "allow"),
                Some(o) => return Err(format!("odd decision {o}")),
            };
            let set = |k: &str| -> Result<BTreeSet<String>, String> { Ok(r.get(k).and_then(|x| x.as_array()).ok_or(format!("no {k}"))?.iter().filter_map(|x| x.as_str().map(String::from)).collect()) };
            let residuals: BTreeSet<String> = r.get("residuals").and_then(|x| x.as_object()).ok_or("no residuals")?.keys().cloned().collect();
            Ok(Ok((d, set("satisfied")?, set("errored")?, set("mayBeDetermining")?, set("mustBeDetermining")?, residuals, set("nontrivialResiduals")?)))
        }
        other => Err(format!("unexpected answer type {other:?}")),
    }
}

#[allow(clippy::too_many_arguments)]
fn do_partial(step: usize, ps: &PsDoc, render: u8, schema: Option<(u8, u8)>, validate_request: bool, store: &[Value], implicit: bool, req: &ReqDoc, unknown: u8) -> JobResult {
    let mut out = jr();
    let mut call = auth_call_json(ps, render, schema, validate_request, store, implicit, req);
    if let Some(o) = call.as_object_mut() {
        if unknown & 1 != 0 {
            if unknown & 4 != 0 { o.insert("principal".into(), Value::Null); } else { o.remove("principal"); }
        }
        if unknown & 2 != 0 {
            if unknown & 4 != 0 { o.insert("resource".into(), Value::Null); } else { o.remove("resource"); }
        }
    }
    let ans = if render & 16 != 0 {
        out.counts.push(("route.json_str", 1));
        ffi::is_authorized_partial_json_str(&call.to_string()).and_then(|s| serde_json::from_str::<Value>(&s))
    } else {
        ffi::is_authorized_partial_json(call)
    };
    let ans = match ans {
        Ok(a) => a,
        Err(e) => {
            out.violation = viol("ffi_rejects_call_shape", "is_authorized_partial_json", step, "the call document deserialises".into(), e.to_string());
            return out;
        }
    };
    let got = match ffi_poutcome(&ans) {
        Ok(g) => g,
        Err(e) => {
            out.violation = viol("ffi_answer_shape", "is_authorized_partial_json", step, "a residuals or failure answer".into(), e);
            return out;
        }
    };
    let want = api_partial(ps, render, schema, validate_request, store, implicit, req, unknown);
    out.events.push(format!("{step} partial u{} -> {:?}", unknown & 3, got));
    out.counts.push(("evaluations", 1));
    match &got {
        Ok(g) => {
            out.counts.push(("ffi_partial_success", 1));
            if g.0.is_none() {
                out.counts.push(("reach.partial_undecided", 1));
            }
            if !g.6.is_empty() {
                out.counts.push(("reach.partial_nontrivial_residuals", 1));
            }
        }
        Err(()) => out.counts.push(("designed_failures_observed", 1)),
    }
    if got != want {
        let kind = match (&got, &want) {
            (Ok(_), Err(_)) | (Err(_), Ok(_)) => "ffi_success_vs_failure",
            (Ok(g), Ok(w)) if g.0 != w.0 => "ffi_decision",
            _ => "ffi_partial_sets",
        };
        out.violation = viol(kind, &format!("partial authorize render{} unknown{}", render % 8 % 5, unknown & 3), step, format!("API: {want:?}"), format!("FFI: {got:?}"));
    }
    out
}

fn do_preparse_ps(step: usize, name: &str, ps: &PsDoc, render: u8) -> JobResult {
    let mut out = jr();
    let doc = ps_doc(ps, render);
    let parsed: ffi::PolicySet = match serde_json::from_value(doc) {
        Ok(p) => p,
        Err(e) => {
            out.violation = viol("ffi_rejects_call_shape", "preparse_policy_set", step, "the policy-set document deserialises".into(), e.to_string());
            return out;
        }
    };
    let ans = serde_json::to_value(ffi::preparse_policy_set(name.to_string(), parsed)).unwrap_or(Value::Null);
    let ok = ans.get("type").and_then(|t| t.as_str()) == Some("success");
    let want = api_policy_set(ps, render).is_ok();
    out.events.push(format!("{step} preparse_ps {name:?} -> {ok}"));
    out.counts.push(("evaluations", 1));
    if !ok {
        out.counts.push(("designed_failures_observed", 1));
    }
    if ok != want {
        out.violation = viol("ffi_success_vs_failure", "preparse_policy_set", step, format!("API parses the set: {want}"), format!("FFI registered: {ok}"));
    }
    out.registered = Some(ok);
    out
}

fn do_preparse_schema(step: usize, name: &str, idx: u8, render: u8) -> JobResult {
    let mut out = jr();
    let parsed: ffi::Schema = match serde_json::from_value(schema_doc(idx, render)) {
        Ok(p) => p,
        Err(e) => {
            out.violation = viol("ffi_rejects_call_shape", "preparse_schema", step, "the schema document deserialises".into(), e.to_string());
            return out;
        }
    };
    let ans = serde_json::to_value(ffi::preparse_schema(name.to_string(), parsed)).unwrap_or(Value::Null);
    let ok = ans.get("type").and_then(|t| t.as_str()) == Some("success");
    let want = api_schema(idx, render).is_ok();
    out.events.push(format!("{step} preparse_schema {name:?} -> {ok}"));
    out.counts.push(("evaluations", 1));
    if !ok {
        out.counts.push(("designed_failures_observed", 1));
    }
    if ok != want {
        out.violation = viol("ffi_success_vs_failure", "preparse_schema", step, format!("API parses the schema: {want}"), format!("FFI registered: {ok}"));
    }
    out.registered = Some(ok);
    out
}

/// `reg_ps` / `reg_schema`: what the model says is currently registered on this thread
#[allow(clippy::too_many_arguments)]
fn do_stateful(step: usize, ps_name: &str, reg_ps: Option<(PsDoc, u8)>, schema_name: Option<String>, reg_schema: Option<Option<(u8, u8)>>, validate_request: bool, store: &[Value], implicit: bool, req: &ReqDoc) -> JobResult {
    let mut out = jr();
    let mut call = json!({
        "principal": uid_json(&req.p, req.uid_form),
        "action": uid_json(&req.a, req.uid_form),
        "resource": uid_json(&req.r, req.uid_form),
        "context": req.ctx,
        "preparsedPolicySetId": ps_name,
        "entities": store_doc(store, implicit),
    });
    if let Some(n) = &schema_name {
        call["preparsedSchemaName"] = json!(n);
    }
    if !validate_request {
        call["validateRequest"] = json!(false);
    }
    let parsed: ffi::StatefulAuthorizationCall = match serde_json::from_value(call) {
        Ok(p) => p,
        Err(e) => {
            out.violation = viol("ffi_rejects_call_shape", "stateful_is_authorized", step, "the call document deserialises".into(), e.to_string());
            return out;
        }
    };
    let ans = serde_json::to_value(ffi::stateful_is_authorized(parsed)).unwrap_or(Value::Null);
    let got = match ffi_outcome(&ans) {
        Ok(g) => g,
        Err(e) => {
            out.violation = viol("ffi_answer_shape", "stateful_is_authorized", step, "a success or failure answer".into(), e);
            return out;
        }
    };
    out.events.push(format!("{step} stateful {ps_name:?}/{schema_name:?} -> {}", show(&got)));
    out.counts.push(("evaluations", 1));
    // the stateless call for the currently registered documents, on the same thread
    let want: Outcome = match (&reg_ps, &reg_schema) {
        (Some((ps, render)), Some(sch)) => {
            let call = auth_call_json(ps, *render, *sch, validate_request, store, implicit, req);
            match ffi::is_authorized_json(call).map_err(|e| e.to_string()).and_then(|a| ffi_outcome(&a)) {
                Ok(o) => o,
                Err(e) => {
                    out.violation = viol("ffi_answer_shape", "is_authorized_json (stateless twin)", step, "an answer".into(), e);
                    return out;
                }
            }
        }
        // nothing registered under that name on this thread
        _ => Err(()),
    };
    if reg_ps.is_some() && reg_schema.is_some() {
        out.counts.push(("reach.stateful_answered_from_cache", 1));
    } else {
        out.counts.push(("reach.stateful_unregistered_name", 1));
    }
    if got != want {
        let kind = if got.is_ok() != want.is_ok() { "stateful_success_vs_failure" } else { "stateful_differs_from_stateless" };
        out.violation = viol(kind, "stateful vs stateless for the registered documents", step, format!("stateless: {}", show(&want)), format!("stateful: {}", show(&got)));
    }
    out
}

fn do_validate(step: usize, ps: &PsDoc, render: u8, sidx: u8, srender: u8, permissive: bool) -> JobResult {
    let mut out = jr();
    let call = json!({"validationSettings": {"mode": if permissive { "permissive" } else { "strict" }}, "schema": schema_doc(sidx, srender), "policies": ps_doc(ps, render)});
    let ans = match if render & 16 != 0 { ffi::validate_json_str(&call.to_string()).and_then(|s| serde_json::from_str::<Value>(&s)) } else { ffi::validate_json(call) } {
        Ok(a) => a,
        Err(e) => {
            out.violation = viol("ffi_rejects_call_shape", "validate_json", step, "the call document deserialises".into(), e.to_string());
            return out;
        }
    };
    out.counts.push(("evaluations", 1));
    let api_ps = api_policy_set(ps, render);
    let api_s = api_schema(sidx, srender);
    let ffi_ok = ans.get("type").and_then(|t| t.as_str()) == Some("success");
    out.events.push(format!("{step} validate -> {ffi_ok}"));
    match (api_ps, api_s) {
        (Ok(p), Ok(s)) => {
            if !ffi_ok {
                out.violation = viol("ffi_success_vs_failure", "validate_json", step, "API parses both documents".into(), format!("FFI failure: {ans}"));
                return out;
            }
            let res = Validator::new(s).validate(&p, if permissive { ValidationMode::Permissive } else { ValidationMode::Strict });
            let want_e: Vec<(String, String)> = res.validation_errors().map(|e| (raw(e.policy_id()), e.to_string())).collect();
            let want_w: Vec<(String, String)> = res.validation_warnings().map(|e| (raw(e.policy_id()), e.to_string())).collect();
            let grab = |k: &str| -> Vec<(String, String)> {
                ans.get(k)
                    .and_then(|x| x.as_array())
                    .map(|a| a.iter().map(|e| (e.get("policyId").and_then(|p| p.as_str()).unwrap_or("").to_string(), e.get("error").and_then(|x| x.get("message")).and_then(|m| m.as_str()).unwrap_or("").to_string())).collect())
                    .unwrap_or_default()
            };
            let got_e = grab("validationErrors");
            let got_w = grab("validationWarnings");
            // same multiset of (policy id, message); the FFI message may append the error's source chain
            let matches = |got: &Vec<(String, String)>, want: &Vec<(String, String)>| -> bool {
                if got.len() != want.len() {
                    return false;
                }
                let mut used = vec![false; got.len()];
                'w: for (wid, wmsg) in want {
                    for (k, (gid, gmsg)) in got.iter().enumerate() {
                        if !used[k] && gid == wid && gmsg.starts_with(wmsg.as_str()) {
                            used[k] = true;
                            continue 'w;
                        }
                    }
                    return false;
                }
                true
            };
            if !want_e.is_empty() {
                out.counts.push(("reach.validation_errors_reported", 1));
            }
            if want_e.is_empty() && !want_w.is_empty() {
                out.counts.push(("reach.validation_warnings_without_errors", 1));
            }
            if !matches(&got_e, &want_e) {
                out.violation = viol("ffi_validation_errors", "validate_json errors", step, format!("{want_e:?}"), format!("{got_e:?}"));
            } else if !matches(&got_w, &want_w) {
                out.violation = viol("ffi_validation_warnings", "validate_json warnings", step, format!("{want_w:?}"), format!("{got_w:?}"));
            }
        }
        _ => {
            out.counts.push(("designed_failures_observed", 1));
            if ffi_ok {
                out.violation = viol("ffi_success_vs_failure", "validate_json", step, "API rejects a document".into(), "FFI success".into());
            }
        }
    }
    out
}

fn do_format(step: usize, ps: &PsDoc, width: u16, indent: u8) -> JobResult {
    let mut out = jr();
    let mut text = String::new();
    for (k, (_, t)) in ps.statics.iter().chain(ps.templates.iter()).enumerate() {
        if k % 2 == 1 {
            text.push_str("// comment\n");
        }
        text.push_str(t);
        text.push_str(if k % 3 == 0 { "\n\n" } else { " " });
    }
    let call = json!({"policyText": text, "lineWidth": width, "indentWidth": indent});
    let ans = match if width % 3 == 0 { ffi::format_json_str(&call.to_string()).and_then(|s| serde_json::from_str::<Value>(&s)) } else { ffi::format_json(call) } {
        Ok(a) => a,
        Err(e) => {
            out.violation = viol("ffi_rejects_call_shape", "format_json", step, "the call document deserialises".into(), e.to_string());
            return out;
        }
    };
    out.counts.push(("evaluations", 1));
    let want = policies_str_to_pretty(&text, &Config { line_width: width as usize, indent_width: indent as isize });
    let got = ans.get("formatted_policy").and_then(|x| x.as_str()).map(String::from);
    out.events.push(format!("{step} format -> {}", got.is_some()));
    match (want, got) {
        (Ok(w), Some(g)) => {
            if w != g {
                out.violation = viol("ffi_format_differs", "format_json", step, w, g);
            }
        }
        (Err(_), None) => out.counts.push(("designed_failures_observed", 1)),
        (w, g) => out.violation = viol("ffi_success_vs_failure", "format_json", step, format!("API ok: {}", w.is_ok()), format!("FFI ok: {} ({ans})", g.is_some())),
    }
    out
}

fn do_convert(step: usize, kind: u8, ps: &PsDoc, sidx: u8) -> JobResult {
    let mut out = jr();
    out.counts.push(("evaluations", 1));
    let first_static = ps.statics.first().map(|x| x.1.clone()).unwrap_or_else(|| "permit(principal, action, resource);".into());
    let first_template = ps.templates.first().map(|x| x.1.clone()).unwrap_or_else(|| TEMPLATES[0].into());
    let ty = |a: &Value| a.get("type").and_then(|t| t.as_str()).map(String::from);
    match kind % 8 {
        0 => {
            // policy text -> JSON
            let Ok(p) = serde_json::from_value::<ffi::Policy>(Value::String(first_static.clone())) else { return out };
            let ans = serde_json::to_value(ffi::policy_to_json(p)).unwrap_or(Value::Null);
            let want = Policy::parse(None, &first_static).ok().and_then(|p| p.to_json().ok());
            let got = if ty(&ans).as_deref() == Some("success") { ans.get("json").cloned() } else { None };
            out.events.push(format!("{step} policy_to_json -> {}", got.is_some()));
            if got != want {
                out.violation = viol("ffi_conversion_differs", "policy_to_json", step, format!("{want:?}"), format!("{got:?}"));
            }
        }
        1 => {
            // policy JSON -> text (compared after parsing)
            let Some(est) = Policy::parse(None, &first_static).ok().and_then(|p| p.to_json().ok()) else { return out };
            let Ok(p) = serde_json::from_value::<ffi::Policy>(est.clone()) else { return out };
            let ans = serde_json::to_value(ffi::policy_to_text(p)).unwrap_or(Value::Null);
            // compared as values: parse the FFI's text and compare JSON forms
            let got = ans.get("text").and_then(|t| t.as_str()).and_then(|t| Policy::parse(None, t).ok()).and_then(|p| p.to_json().ok());
            let want = Policy::from_json(None, est).ok().and_then(|p| p.to_json().ok());
            out.events.push(format!("{step} policy_to_text -> {}", got.is_some()));
            if got != want {
                out.violation = viol("ffi_conversion_differs", "policy_to_text", step, format!("{:?}", want), format!("{:?}", ans));
            }
        }
        2 => {
            let Ok(t) = serde_json::from_value::<ffi::Template>(Value::String(first_template.clone())) else { return out };
            let ans = serde_json::to_value(ffi::template_to_json(t)).unwrap_or(Value::Null);
            let want = Template::parse(None, &first_template).ok().and_then(|p| p.to_json().ok());
            let got = if ty(&ans).as_deref() == Some("success") { ans.get("json").cloned() } else { None };
            out.events.push(format!("{step} template_to_json -> {}", got.is_some()));
            if got != want {
                out.violation = viol("ffi_conversion_differs", "template_to_json", step, format!("{want:?}"), format!("{got:?}"));
            }
        }
        3 => {
            let Some(est) = Template::parse(None, &first_template).ok().and_then(|p| p.to_json().ok()) else { return out };
            let Ok(t) = serde_json::from_value::<ffi::Template>(est.clone()) else { return out };
            let ans = serde_json::to_value(ffi::template_to_text(t)).unwrap_or(Value::Null);
            let got = ans.get("text").and_then(|t| t.as_str()).and_then(|t| Template::parse(None, t).ok()).and_then(|p| p.to_json().ok());
            let want = Template::from_json(None, est).ok().and_then(|p| p.to_json().ok());
            out.events.push(format!("{step} template_to_text -> {}", got.is_some()));
            if got != want {
                out.violation = viol("ffi_conversion_differs", "template_to_text", step, format!("{:?}", want), format!("{:?}", ans));
            }
        }
        4 => {
            // schema JSON -> Cedar text
            let Ok(s) = serde_json::from_value::<ffi::Schema>(schema_json(sidx)) else { return out };
            let ans = serde_json::to_value(ffi::schema_to_text(s)).unwrap_or(Value::Null);
            let got = ans.get("text").and_then(|t| t.as_str()).map(String::from);
            let want = SchemaFragment::from_json_value(schema_json(sidx)).ok().and_then(|f| {
                let text = f.to_cedarschema().ok()?;
                TryInto::<Schema>::try_into(f).ok()?;
                Some(text)
            });
            out.events.push(format!("{step} schema_to_text -> {}", got.is_some()));
            if got != want {
                out.violation = viol("ffi_conversion_differs", "schema_to_text", step, format!("{want:?}"), format!("{got:?}"));
            }
        }
        5 => {
            let src = SCHEMAS[sidx as usize % 8];
            let Ok(s) = serde_json::from_value::<ffi::Schema>(Value::String(src.to_string())) else { return out };
            let ans = serde_json::to_value(ffi::schema_to_json(s)).unwrap_or(Value::Null);
            let got = if ty(&ans).as_deref() == Some("success") { ans.get("json").cloned() } else { None };
            let want = SchemaFragment::from_cedarschema_str(src).ok().and_then(|(f, _)| {
                let j = f.to_json_value().ok()?;
                Schema::from_json_value(j.clone()).ok()?;
                Some(j)
            });
            out.events.push(format!("{step} schema_to_json -> {}", got.is_some()));
            if got != want {
                out.violation = viol("ffi_conversion_differs", "schema_to_json", step, format!("{want:?}"), format!("{got:?}"));
            }
        }
        7 => {
            // Cedar schema text -> JSON with resolved types
            let src = SCHEMAS[sidx as usize % 8];
            let ans = serde_json::to_value(ffi::schema_to_json_with_resolved_types(src)).unwrap_or(Value::Null);
            let got = if ty(&ans).as_deref() == Some("success") { ans.get("json").cloned() } else { None };
            let want = cedar_policy::schema_str_to_json_with_resolved_types(src).ok().map(|(j, _)| j);
            out.events.push(format!("{step} schema_to_json_with_resolved_types -> {}", got.is_some()));
            if got != want {
                out.violation = viol("ffi_conversion_differs", "schema_to_json_with_resolved_types", step, format!("{want:?}"), format!("{got:?}"));
            }
            // whatever it resolves to must still be the same schema: the resolved document is accepted
            // by the JSON schema parser exactly when the text is accepted by the Cedar schema parser
            if let Some(j) = &got {
                let text_ok = Schema::from_cedarschema_str(src).is_ok();
                let json_ok = Schema::from_json_value(j.clone()).is_ok();
                if text_ok && !json_ok {
                    out.violation = viol("ffi_conversion_differs", "schema_to_json_with_resolved_types: resolved document is not a schema", step, "a JSON schema".into(), format!("{j}"));
                }
            }
        }
        _ => {
            // policy set text -> parts (compared after parsing each part)
            let text = ps.statics.iter().chain(ps.templates.iter()).map(|(_, t)| t.clone()).collect::<Vec<_>>().join("\n");
            let ans = serde_json::to_value(ffi::policy_set_text_to_parts(&text)).unwrap_or(Value::Null);
            let want = PolicySet::from_str(&text).ok();
            let ok = ty(&ans).as_deref() == Some("success");
            out.events.push(format!("{step} text_to_parts -> {ok}"));
            match want {
                None => {
                    if ok {
                        out.violation = viol("ffi_success_vs_failure", "policy_set_text_to_parts", step, "API rejects the text".into(), "FFI success".into());
                    }
                }
                Some(set) => {
                    let parts = |k: &str| -> Vec<String> { ans.get(k).and_then(|x| x.as_array()).map(|a| a.iter().filter_map(|s| s.as_str().map(String::from)).collect()).unwrap_or_default() };
                    let mut got_p: Vec<String> = parts("policies").iter().filter_map(|t| Policy::parse(None, t).ok()).map(|p| p.to_string()).collect();
                    let mut got_t: Vec<String> = parts("policy_templates").iter().filter_map(|t| Template::parse(None, t).ok()).map(|p| p.to_string()).collect();
                    let mut want_p: Vec<String> = set.policies().filter_map(|p| Policy::parse(None, p.to_string()).ok()).map(|p| p.to_string()).collect();
                    let mut want_t: Vec<String> = set.templates().filter_map(|p| Template::parse(None, p.to_string()).ok()).map(|p| p.to_string()).collect();
                    got_p.sort();
                    got_t.sort();
                    want_p.sort();
                    want_t.sort();
                    if !ok || got_p != want_p || got_t != want_t {
                        out.violation = viol("ffi_conversion_differs", "policy_set_text_to_parts", step, format!("{want_p:?} {want_t:?}"), format!("{got_p:?} {got_t:?} ({ok})"));
                    }
                }
            }
        }
    }
    out
}

fn do_check_parse(step: usize, kind: u8, ps: &PsDoc, render: u8, sidx: u8, srender: u8, store: &[Value], req: Option<&ReqDoc>) -> JobResult {
    let mut out = jr();
    out.counts.push(("evaluations", 1));
    let ok_of = |a: Result<Value, serde_json::Error>| -> Option<bool> { a.ok().and_then(|v| v.get("type").and_then(|t| t.as_str()).map(|t| t == "success")) };
    // bit 4 of `render`: through the `*_json_str` entry point
    let via_str = render & 16 != 0;
    let strv = |r: Result<String, serde_json::Error>| r.and_then(|s| serde_json::from_str::<Value>(&s));
    let default_req = ReqDoc { p: "User::\"u0\"".into(), a: "Action::\"view\"".into(), r: "Doc::\"d0\"".into(), ctx: json!({"n": 1}), uid_form: 0 };
    let req = req.unwrap_or(&default_req);
    let (name, got, want): (&str, Option<bool>, bool) = match kind % 6 {
        0 => {
            let doc = ps_doc(ps, render);
            ("check_parse_policy_set", ok_of(if via_str { strv(ffi::check_parse_policy_set_json_str(&doc.to_string())) } else { ffi::check_parse_policy_set_json(doc) }), api_policy_set(ps, render).is_ok())
        }
        1 => {
            let doc = schema_doc(sidx, srender);
            ("check_parse_schema", ok_of(if via_str { strv(ffi::check_parse_schema_json_str(&doc.to_string())) } else { ffi::check_parse_schema_json(doc) }), api_schema(sidx, srender).is_ok())
        }
        2 => {
            let s = api_schema(sidx, srender);
            let want = s.as_ref().is_ok_and(|s| Entities::from_json_value(Value::Array(store.to_vec()), Some(s)).is_ok());
            let doc = json!({"entities": store, "schema": schema_doc(sidx, srender)});
            ("check_parse_entities", ok_of(if via_str { strv(ffi::check_parse_entities_json_str(&doc.to_string())) } else { ffi::check_parse_entities_json(doc) }), want)
        }
        3 => {
            let want = Entities::from_json_value(Value::Array(store.to_vec()), None).is_ok();
            ("check_parse_entities(no schema)", ok_of(ffi::check_parse_entities_json(json!({"entities": store}))), want)
        }
        4 => {
            // context, with (schema, action) or without
            let with_schema = render & 1 == 0;
            // bit 1 of `render`: schema-implicit form (entity references without the `__entity` escape),
            // which only the schema-directed parser reads as entities
            let ctx = if render & 2 != 0 { store_doc(&[req.ctx.clone()], true).get(0).cloned().unwrap_or(Value::Null) } else { req.ctx.clone() };
            let mut doc = json!({"context": ctx});
            let want = if with_schema {
                doc["schema"] = schema_doc(sidx, srender);
                doc["action"] = uid_json(&req.a, req.uid_form);
                match (api_schema(sidx, srender), EntityUid::from_json(uid_json(&req.a, req.uid_form))) {
                    (Ok(s), Ok(a)) => Context::from_json_value(ctx.clone(), Some((&s, &a))).is_ok(),
                    _ => false,
                }
            } else {
                Context::from_json_value(ctx.clone(), None).is_ok()
            };
            ("check_parse_context", ok_of(if via_str { strv(ffi::check_parse_context_json_str(&doc.to_string())) } else { ffi::check_parse_context_json(doc) }), want)
        }
        _ => {
            let doc = json!({"schema": schema_doc(sidx, srender), "principal": uid_json(&req.p, req.uid_form), "action": uid_json(&req.a, req.uid_form), "resource": uid_json(&req.r, req.uid_form)});
            let uids = (EntityUid::from_json(uid_json(&req.p, req.uid_form)), EntityUid::from_json(uid_json(&req.a, req.uid_form)), EntityUid::from_json(uid_json(&req.r, req.uid_form)));
            let want = match (api_schema(sidx, srender), uids) {
                (Ok(s), (Ok(p), Ok(a), Ok(r))) => cedar_policy::validate_scope_variables(&p, &a, &r, &s).is_ok(),
                _ => false,
            };
            ("check_parse_scope_variables", ok_of(ffi::check_parse_scope_variables_json(doc)), want)
        }
    };
    out.events.push(format!("{step} {name} -> {got:?}"));
    match got {
        None => out.violation = viol("ffi_rejects_call_shape", name, step, "the call document deserialises".into(), "deserialisation error".into()),
        Some(g) => {
            if !g {
                out.counts.push(("designed_failures_observed", 1));
            }
            if g != want {
                out.violation = viol("ffi_success_vs_failure", name, step, format!("API accepts: {want}"), format!("FFI accepts: {g}"));
            }
        }
    }
    out
}

// ------------------------------------------------------------------ the run

#[derive(Default, Clone)]
struct ThreadModel {
    ps: BTreeMap<String, (PsDoc, u8)>,
    schemas: BTreeMap<String, (u8, u8)>,
}

fn run(case: &Case, obs: &mut Obs) -> Option<Violation> {
    let k = case.thread_seeds.len().max(1);
    let mut callers: Vec<Caller<JobResult>> = vec![];
    for s in case.thread_seeds.iter() {
        match Caller::spawn(*s, 16) {
            Ok(c) => callers.push(c),
            Err(e) => return Some(Violation::new("harness_thread", "cannot spawn caller thread", 0, "thread", e)),
        }
    }
    if callers.is_empty() {
        return None;
    }
    let mut models: Vec<ThreadModel> = vec![ThreadModel::default(); k];
    let mut threads_used = BTreeSet::new();
    let (mut rereg_live, mut failed_reg, mut cache_hits) = (0, 0, 0);
    let mut trail = 0u64;
    let empty_ps = PsDoc { statics: vec![], templates: vec![], links: vec![] };
    for (step, op) in case.ops.iter().enumerate() {
        obs.count("logical_steps");
        let pick_ps = |i: u8| case.psets.get(i as usize % case.psets.len().max(1)).cloned().unwrap_or_else(|| empty_ps.clone());
        let pick_store = |i: u8| case.stores.get(i as usize % case.stores.len().max(1)).cloned().unwrap_or_default();
        let t = match op {
            Op::Authorize { thread, .. } | Op::PreparsePs { thread, .. } | Op::PreparseSchema { thread, .. } | Op::Stateful { thread, .. } | Op::Validate { thread, .. } | Op::Format { thread, .. } | Op::Convert { thread, .. } | Op::CheckParse { thread, .. } | Op::Partial { thread, .. } | Op::Cli { thread, .. } => *thread as usize % k,
        };
        threads_used.insert(t);
        obs.count("fault.thread_switch");
        let res = match op.clone() {
            Op::Authorize { ps, render, schema, validate_request, store, implicit, req, .. } => {
                let (p, s) = (pick_ps(ps), pick_store(store));
                callers[t].call(move || do_authorize(step, &p, render, schema, validate_request, &s, implicit, &req))
            }
            Op::PreparsePs { name, ps, render, .. } => {
                let p = pick_ps(ps);
                let n = NAMES[name as usize % NAMES.len()].to_string();
                let live = models[t].ps.contains_key(&n);
                let p2 = p.clone();
                let n2 = n.clone();
                let r = callers[t].call(move || do_preparse_ps(step, &n2, &p2, render));
                if let Ok(jr) = &r {
                    match jr.registered {
                        Some(true) => {
                            if live {
                                rereg_live += 1;
                                obs.count("reach.reregistration_over_live_name");
                            }
                            models[t].ps.insert(n, (p, render));
                        }
                        Some(false) => {
                            failed_reg += 1;
                            if live {
                                obs.count("reach.failed_reregistration_over_live_name");
                            }
                        }
                        None => {}
                    }
                }
                r
            }
            Op::PreparseSchema { name, schema, render, .. } => {
                let n = NAMES[name as usize % NAMES.len()].to_string();
                let n2 = n.clone();
                let live = models[t].schemas.contains_key(&n);
                let r = callers[t].call(move || do_preparse_schema(step, &n2, schema, render));
                if let Ok(jr) = &r {
                    match jr.registered {
                        Some(true) => {
                            if live {
                                rereg_live += 1;
                                obs.count("reach.reregistration_over_live_name");
                            }
                            models[t].schemas.insert(n, (schema, render));
                        }
                        Some(false) => {
                            failed_reg += 1;
                            if live {
                                obs.count("reach.failed_reregistration_over_live_name");
                            }
                        }
                        None => {}
                    }
                }
                r
            }
            Op::Stateful { ps_name, schema_name, validate_request, store, implicit, req, .. } => {
                let pn = NAMES[ps_name as usize % NAMES.len()].to_string();
                let sn = schema_name.map(|s| NAMES[s as usize % NAMES.len()].to_string());
                let reg_ps = models[t].ps.get(&pn).cloned();
                // Some(None) = no schema requested; Some(Some(..)) = registered; None = requested but unregistered
                let reg_schema: Option<Option<(u8, u8)>> = match &sn {
                    None => Some(None),
                    Some(n) => models[t].schemas.get(n).map(|x| Some(*x)),
                };
                if reg_ps.is_some() && reg_schema.is_some() {
                    cache_hits += 1;
                }
                let s = pick_store(store);
                callers[t].call(move || do_stateful(step, &pn, reg_ps, sn, reg_schema, validate_request, &s, implicit, &req))
            }
            Op::Validate { ps, render, schema, srender, permissive, .. } => {
                let p = pick_ps(ps);
                callers[t].call(move || do_validate(step, &p, render, schema, srender, permissive))
            }
            Op::Format { ps, width, indent, .. } => {
                let p = pick_ps(ps);
                callers[t].call(move || do_format(step, &p, width, indent))
            }
            Op::Convert { kind, ps, schema, .. } => {
                let p = pick_ps(ps);
                callers[t].call(move || do_convert(step, kind, &p, schema))
            }
            Op::CheckParse { kind, ps, render, schema, srender, store, req, .. } => {
                let (p, s) = (pick_ps(ps), pick_store(store));
                callers[t].call(move || do_check_parse(step, kind, &p, render, schema, srender, &s, req.as_ref()))
            }
            Op::Partial { ps, render, schema, validate_request, store, implicit, req, unknown, .. } => {
                let (p, s) = (pick_ps(ps), pick_store(store));
                callers[t].call(move || do_partial(step, &p, render, schema, validate_request, &s, implicit, &req, unknown))
            }
            Op::Cli { cli, .. } => {
                let Some((bin, shim)) = crate::worlds::frontends_cli::cli_available() else {
                    obs.count("cli_ops_skipped_no_binary");
                    continue;
                };
                let (p, s) = (pick_ps(cli.ps), pick_store(cli.store));
                let schema_text = cli.schema.map(|(i, r)| if r % 2 == 0 { (SCHEMAS[i as usize % 8].to_string(), false) } else { (schema_json(i).to_string(), true) });
                callers[t].call(move || crate::worlds::frontends_cli::do_cli(step, &cli, &p, &s, schema_text, &bin, &shim))
            }
        };
        match res {
            Ok(jr) => {
                for e in &jr.events {
                    obs.event(e);
                    trail = mix(&[trail, tag(e)]);
                }
                for (c, n) in &jr.counts {
                    obs.add(c, *n);
                }
                if let Some(v) = jr.violation {
                    if !obs.is_known(&v) {
                        return Some(v);
                    }
                }
            }
            Err(msg) => {
                let v = Violation::new("panic", format!("panic on caller thread: {}", msg.chars().take(120).collect::<String>()), step, "no panic", msg);
                if !obs.is_known(&v) {
                    return Some(v);
                }
            }
        }
    }
    if rereg_live >= 1 && failed_reg >= 1 && threads_used.len() >= 2 && cache_hits >= 1 {
        obs.mark("nontrivial", trail);
    }
    obs.mark("schedules", mix(&[trail, case.hash_seed]));
    None
}

// ------------------------------------------------------------------ generator

fn gen_ps(rng: &mut Rng) -> PsDoc {
    let ids = ["policy0", "policy1", "a", "b", "c", "policy2", "t", "u"];
    let mut statics = vec![];
    let users = ["u0", "u1", "u2", "u3"];
    let n = rng.range(0, 4);
    for k in 0..n {
        let text = if rng.pct(20) {
            rng.pick_str(ODD_POLICIES).to_string()
        } else {
            rng.pick_str(SHAPES).replace("{U2}", rng.pick_str(&users)).replace("{U}", rng.pick_str(&users)).replace("{G2}", "g1").replace("{G}", "g0").replace("{D}", "d0").replace("{F}", "f0")
        };
        // mostly distinct ids, sometimes a collision
        let id = if rng.pct(90) { ids[k % ids.len()].to_string() } else { rng.pick(&ids).to_string() };
        statics.push((id, text));
    }
    let mut templates = vec![];
    let mut links = vec![];
    if rng.pct(45) {
        for k in 0..rng.range(1, 2) {
            let ti = rng.below(TEMPLATES.len());
            let tid = if rng.pct(90) { format!("t{k}") } else { rng.pick(&ids).to_string() };
            templates.push((tid.clone(), TEMPLATES[ti].to_string()));
            for j in 0..rng.range(0, 2) {
                let (sp, sr) = TEMPLATE_SLOTS[ti];
                let exact = rng.pct(85);
                let p = if sp == exact { Some(format!("{}::\"{}\"", if rng.pct(70) { "User" } else { "Group" }, if rng.pct(70) { rng.pick(&users).to_string() } else { "g0".into() })) } else { None };
                let r = if sr == exact { Some(format!("Folder::\"f{}\"", rng.below(2))) } else { None };
                let target = if rng.pct(92) { tid.clone() } else { "missing".to_string() };
                links.push(LinkDoc { tid: target.clone(), id: format!("l{k}{j}"), p: p.clone(), r: r.clone() });
                // now and then the same instantiation again under another id
                if rng.pct(15) {
                    links.push(LinkDoc { tid: target, id: format!("l{k}{j}-again"), p, r });
                }
            }
        }
    }
    // designed-invalid documents
    match rng.below(14) {
        0 => statics.push(("bad".into(), "permit(principal, action resource);".into())),
        1 => statics.push(("tmpl-in-static".into(), TEMPLATES[0].into())),
        2 => {
            if let Some((id, _)) = statics.first().cloned() {
                templates.push((id, TEMPLATES[0].into()));
            }
        }
        _ => {}
    }
    PsDoc { statics, templates, links }
}

fn gen_req(rng: &mut Rng) -> ReqDoc {
    let users = ["u0", "u1", "u2", "u3", "u9"];
    let action = *rng.pick(&["view", "view", "edit", "browse", "nosuch"]);
    let resource = if action == "browse" { format!("Folder::\"f{}\"", rng.below(3)) } else if rng.pct(90) { format!("Doc::\"d{}\"", rng.below(4)) } else { format!("User::\"{}\"", rng.pick(&users)) };
    let mut ctx = serde_json::Map::new();
    if rng.pct(92) {
        ctx.insert("n".into(), json!(rng.below(8) as i64));
    }
    if rng.pct(40) {
        ctx.insert("via".into(), json!({"__entity": {"type": "User", "id": rng.pick(&users)}}));
    }
    if rng.pct(8) {
        ctx.insert("extra".into(), json!("x"));
    }
    ReqDoc { p: format!("User::\"{}\"", rng.pick(&users)), a: format!("Action::\"{action}\""), r: resource, ctx: Value::Object(ctx), uid_form: rng.below(2) as u8 }
}

/// a request that conforms to the schema (the CLI ops should mostly reach a decision)
fn gen_req_valid(rng: &mut Rng) -> ReqDoc {
    let action = rng.pick_str(&["view", "edit", "browse"]);
    let resource = if action == "browse" { format!("Folder::\"f{}\"", rng.below(3)) } else { format!("Doc::\"d{}\"", rng.below(4)) };
    let mut ctx = serde_json::Map::new();
    ctx.insert("n".into(), json!(rng.below(8) as i64));
    if rng.pct(40) {
        ctx.insert("via".into(), json!({"__entity": {"type": "User", "id": format!("u{}", rng.below(4))}}));
    }
    ReqDoc { p: format!("User::\"u{}\"", rng.below(4)), a: format!("Action::\"{action}\""), r: resource, ctx: Value::Object(ctx), uid_form: 0 }
}

pub struct Frontends;

impl World for Frontends {
    type Case = Case;
    fn property(&self) -> &'static str {
        "C19"
    }
    fn name(&self) -> &'static str {
        "frontends"
    }
    fn runs(&self, tier: Tier) -> u64 {
        match tier {
            Tier::Quick => 8_000,
            Tier::Thorough => 120_000,
        }
    }
    fn generate(&self, seed: u64, _tier: Tier) -> Case {
        let mut rng = Rng::sub(seed, "workload");
        let mut hs = Rng::sub(seed, "hashkeys");
        let mut sched = Rng::sub(seed, "scheduler");
        let nthreads = rng.range(1, 3);
        let psets: Vec<PsDoc> = (0..rng.range(2, 4)).map(|_| gen_ps(&mut rng)).collect();
        // policy sets without a designed-invalid document (the CLI ops prefer them, so that most
        // spawns reach a decision)
        let good_ps: Vec<u8> = psets.iter().enumerate().filter(|(_, p)| !p.statics.iter().any(|(id, _)| id == "bad" || id == "tmpl-in-static") && !p.links.iter().any(|l| l.tid == "missing")).map(|(i, _)| i as u8).collect();
        // now and then a store without any entity (with a schema, the API still adds the action entities)
        let stores: Vec<Vec<Value>> = (0..rng.range(1, 3)).map(|_| if rng.pct(12) { vec![] } else { crate::worlds::batched::gen_store(&mut rng) }).collect();
        let nops = rng.range(8, 28);
        let cli_w = if std::env::var("VERIF_NO_CLI").is_ok() { 0 } else { 1 };
        let w: Vec<u32> = vec![8, 7, 4, 12, 3, 2, 2, 2, cli_w, 3];
        let mut ops = vec![];
        // approximate bookkeeping so that most stateful calls hit a registered name
        let mut reg_ps: Vec<Vec<u8>> = vec![vec![]; nthreads];
        let mut reg_s: Vec<Vec<u8>> = vec![vec![]; nthreads];
        for t in 0..nthreads {
            if rng.pct(80) {
                let name = rng.below(3) as u8;
                reg_ps[t].push(name);
                ops.push(Op::PreparsePs { thread: t as u8, name, ps: rng.below(psets.len()) as u8, render: rng.below(16) as u8 });
            }
            if rng.pct(60) {
                let name = rng.below(3) as u8;
                reg_s[t].push(name);
                ops.push(Op::PreparseSchema { thread: t as u8, name, schema: *rng.pick(&[0u8, 0, 1]), render: rng.below(2) as u8 });
            }
        }
        for _ in 0..nops {
            let thread = sched.below(nthreads) as u8;
            let schema_pick = |rng: &mut Rng| -> u8 { *rng.pick(&[0u8, 0, 0, 1, 1, 2, 3]) };
            let op = match rng.weighted(&w) {
                9 => Op::Partial {
                    thread,
                    ps: rng.below(psets.len()) as u8,
                    render: rng.below(32) as u8,
                    schema: if rng.pct(50) { Some((schema_pick(&mut rng), rng.below(2) as u8)) } else { None },
                    validate_request: rng.pct(60),
                    store: rng.below(stores.len()) as u8,
                    implicit: rng.pct(30),
                    req: if rng.pct(60) { gen_req_valid(&mut rng) } else { gen_req(&mut rng) },
                    unknown: *rng.pick(&[0u8, 1, 2, 3, 5, 6, 7, 0]),
                },
                0 => Op::Authorize {
                    thread,
                    ps: rng.below(psets.len()) as u8,
                    render: rng.below(32) as u8,
                    schema: if rng.pct(60) { Some((schema_pick(&mut rng), rng.below(2) as u8)) } else { None },
                    validate_request: rng.pct(70),
                    store: rng.below(stores.len()) as u8,
                    implicit: rng.pct(30),
                    req: gen_req(&mut rng),
                },
                1 => {
                    let name = rng.below(3) as u8;
                    reg_ps[thread as usize].push(name);
                    Op::PreparsePs { thread, name, ps: rng.below(psets.len()) as u8, render: rng.below(16) as u8 }
                }
                2 => {
                    let name = rng.below(3) as u8;
                    reg_s[thread as usize].push(name);
                    Op::PreparseSchema { thread, name, schema: schema_pick(&mut rng), render: rng.below(2) as u8 }
                }
                3 => Op::Stateful {
                    thread,
                    ps_name: if !reg_ps[thread as usize].is_empty() && rng.pct(85) { *rng.pick(&reg_ps[thread as usize]) } else { rng.below(3) as u8 },
                    schema_name: if rng.pct(50) { Some(if !reg_s[thread as usize].is_empty() && rng.pct(85) { *rng.pick(&reg_s[thread as usize]) } else { rng.below(3) as u8 }) } else { None },
                    validate_request: rng.pct(70),
                    store: rng.below(stores.len()) as u8,
                    implicit: rng.pct(30),
                    req: gen_req(&mut rng),
                },
                4 => Op::Validate { thread, ps: rng.below(psets.len()) as u8, render: rng.below(32) as u8, schema: schema_pick(&mut rng), srender: rng.below(2) as u8, permissive: rng.pct(30) },
                5 => Op::Format { thread, ps: rng.below(psets.len()) as u8, width: *rng.pick(&[20u16, 40, 80, 120]), indent: *rng.pick(&[0u8, 2, 4]) },
                6 => Op::Convert { thread, kind: rng.below(8) as u8, ps: rng.below(psets.len()) as u8, schema: rng.below(8) as u8 },
                7 => Op::CheckParse { thread, kind: rng.below(6) as u8, ps: rng.below(psets.len()) as u8, render: rng.below(32) as u8, schema: if rng.pct(50) { rng.below(8) as u8 } else { schema_pick(&mut rng) }, srender: rng.below(2) as u8, store: rng.below(stores.len()) as u8, req: Some(if rng.pct(50) { gen_req_valid(&mut rng) } else { gen_req(&mut rng) }) },
                _ => {
                    let mut fr = Rng::sub(seed ^ ops.len() as u64, "faults");
                    let kind = *fr.pick(&[0u8, 0, 0, 0, 1, 1, 1, 2, 3, 4, 5, 6, 6]);
                    let nf = *fr.pick(&[0usize, 0, 0, 1, 1, 2]);
                    let faults = (0..nf).map(|_| crate::worlds::frontends_cli::FileFault { file: fr.below(6) as u8, kind: fr.range(1, 6) as u8, arg: fr.next() as u32 }).collect();
                    let schema = if kind == 1 || kind == 3 { Some((schema_pick(&mut rng), 0)) } else if kind == 4 { Some((schema_pick(&mut rng), 1)) } else if rng.pct(55) { Some((schema_pick(&mut rng), rng.below(2) as u8)) } else { None };
                    // request validation switched off matters exactly when the request does not conform
                    let request_validation = rng.pct(65);
                    let req = if !request_validation && rng.pct(70) {
                        let mut r = gen_req_valid(&mut rng);
                        match rng.below(3) {
                            0 => r.r = format!("User::\"u{}\"", rng.below(4)),
                            1 => r.p = "Group::\"g0\"".to_string(),
                            _ => {
                                if let Some(o) = r.ctx.as_object_mut() {
                                    o.insert("undeclared".into(), json!(1));
                                }
                            }
                        }
                        r
                    } else if rng.pct(80) {
                        gen_req_valid(&mut rng)
                    } else {
                        gen_req(&mut rng)
                    };
                    let mut ps_idx = if !good_ps.is_empty() && rng.pct(80) { *rng.pick(&good_ps) } else { rng.below(psets.len()) as u8 };
                    let mut lr = Rng::sub(seed ^ ops.len() as u64, "linkstep");
                    let link_first = if kind == 0 && lr.pct(35) {
                        // mostly over a policy set that has a template to link
                        let with_t: Vec<u8> = (0..psets.len()).filter(|i| !psets[*i].templates.is_empty() && (good_ps.is_empty() || good_ps.contains(&(*i as u8)))).map(|i| i as u8).collect();
                        if !with_t.is_empty() && lr.pct(85) {
                            ps_idx = *lr.pick(&with_t);
                        }
                        let doc = &psets[ps_idx as usize % psets.len()];
                        let (tid, text) = if !doc.templates.is_empty() && lr.pct(90) { doc.templates[lr.below(doc.templates.len())].clone() } else if !doc.statics.is_empty() && lr.pct(50) { doc.statics[lr.below(doc.statics.len())].clone() } else { ("no-such-template".to_string(), String::new()) };
                        let uid = |lr: &mut Rng| if lr.pct(90) { format!("{}::\"{}{}\"", lr.pick(&["User", "Group", "Doc"]), lr.pick(&["u", "g", "d"]), lr.below(4)) } else { "not a uid".to_string() };
                        let mut p = if text.contains("?principal") { Some(uid(&mut lr)) } else { None };
                        let mut r = if text.contains("?resource") { Some(uid(&mut lr)) } else { None };
                        // sometimes too few or too many bindings
                        match lr.below(12) {
                            0 => p = None,
                            1 => r = None,
                            2 => p = Some(uid(&mut lr)),
                            3 => r = Some(uid(&mut lr)),
                            _ => {}
                        }
                        let taken: Vec<&String> = doc.statics.iter().map(|x| &x.0).chain(doc.templates.iter().map(|x| &x.0)).chain(doc.links.iter().map(|l| &l.id)).collect();
                        let new_id = if !taken.is_empty() && lr.pct(20) { (*lr.pick(&taken)).clone() } else { format!("cli-link-{}", lr.below(3)) };
                        Some(crate::worlds::frontends_cli::LinkStep { tid, new_id, p, r, give_links_file: lr.pct(75) })
                    } else {
                        None
                    };
                    Op::Cli {
                        thread,
                        cli: crate::worlds::frontends_cli::CliOp { annotate_ids: lr.pct(if link_first.is_some() { 92 } else { 75 }), link_first, kind, ps: ps_idx, store: rng.below(stores.len()) as u8, schema, req, verbose: rng.pct(50), request_validation, request_json: rng.pct(40), policy_json: rng.pct(30), deny_warnings: rng.pct(40), level: if rng.pct(35) { Some(rng.below(3) as u8) } else { None }, fmt_width: *rng.pick(&[0u16, 20, 40, 80, 120]), fmt_indent: *rng.pick(&[0u8, 2, 4]), fmt_check: rng.pct(60), fmt_tail: rng.below(4) as u8, faults, hash_seed: hs.next() },
                    }
                }
            };
            ops.push(op);
        }
        Case { hash_seed: hs.next(), thread_seeds: (0..nthreads).map(|_| hs.next()).collect(), psets, stores, ops }
    }
    fn hash_seed(&self, case: &Case) -> u64 {
        case.hash_seed
    }
    fn execute(&self, case: &Case, obs: &mut Obs) -> Option<Violation> {
        run(case, obs)
    }
    fn shrink(&self, case: &Case) -> Vec<Case> {
        let mut out = vec![];
        for ops in list_shrinks(&case.ops) {
            out.push(Case { ops, ..case.clone() });
        }
        if case.thread_seeds.len() > 1 {
            out.push(Case { thread_seeds: case.thread_seeds[..1].to_vec(), ..case.clone() });
        }
        // simplify documents
        for (i, ps) in case.psets.iter().enumerate() {
            for s in list_shrinks(&ps.statics) {
                let mut psets = case.psets.clone();
                psets[i].statics = s;
                out.push(Case { psets, ..case.clone() });
            }
            for s in list_shrinks(&ps.links) {
                let mut psets = case.psets.clone();
                psets[i].links = s;
                out.push(Case { psets, ..case.clone() });
            }
            for s in list_shrinks(&ps.templates) {
                let mut psets = case.psets.clone();
                psets[i].templates = s;
                out.push(Case { psets, ..case.clone() });
            }
        }
        for (i, st) in case.stores.iter().enumerate() {
            for s in list_shrinks(st) {
                let mut stores = case.stores.clone();
                stores[i] = s;
                out.push(Case { stores, ..case.clone() });
            }
        }
        if case.hash_seed != 0 {
            out.push(Case { hash_seed: 0, ..case.clone() });
        }
        out
    }
    fn rule(&self) -> &'static str {
        "cases = seeded histories (8-28 ops) over 1-3 parked caller threads (each with its own thread-local FFI caches and hash keys; the scheduler stream picks the caller of every op): stateless FFI authorization in every input shape (concatenated text | id->text map | id->JSON map | array | mixed; templates as text or JSON + links; schema in Cedar or JSON syntax or absent; validateRequest on/off; explicit or schema-implicit entity JSON), preparse_policy_set / preparse_schema with names from a pool of 3 and ~30% invalid documents, stateful authorization incl. names never registered on that thread, validate, format, conversions (incl. schema_to_json_with_resolved_types), check-parse (policy set, schema, entities, context, scope variables), partial authorization with unknown principal / resource (decision, satisfied, errored, may/must be determining, residual ids vs Authorizer::is_authorized_partial), a quarter to a half of the calls travelling through the `*_json_str` string entry points, and the real cedar CLI over a faulty simulated disk (exit status, printed decision and --verbose reasons vs the API on the faulted bytes); evaluations = FFI answers compared with the Rust API on the same documents (or, for stateful calls, with the stateless FFI call for the modelled registered documents); non-trivial = run with >=1 re-registration over a live name, >=1 failed registration, >=2 threads used and >=1 stateful call answered from the cache; distinct by hash of the event trail"
    }
    fn real_components(&self) -> Vec<&'static str> {
        vec!["the `cedar` CLI binary built from /repo/cedar-policy-cli, run as a subprocess (authorize, validate, translate-policy, translate-schema, check-parse) with an LD_PRELOAD getrandom shim that owns its hash order", "cedar_policy::ffi::{is_authorized_json, stateful_is_authorized, preparse_policy_set, preparse_schema, validate_json, format_json, check_parse_*_json, *_json_str, is_authorized_partial_json, check_parse_context_json, check_parse_scope_variables_json, schema_to_json_with_resolved_types, policy_to_json, policy_to_text, template_to_json, template_to_text, schema_to_text, schema_to_json, policy_set_text_to_parts}", "the Rust API as reference (PolicySet, Policy, Template, Schema, SchemaFragment, Entities, Context, Request, Authorizer, Validator, formatter)"]
    }
    fn simulated_components(&self) -> Vec<&'static str> {
        vec!["caller threads: real OS threads, parked; the simulator decides who executes the next call (exactly one runnable)", "per-thread model of the registration cache (name -> last successfully registered document)", "hash-map iteration order per thread (getrandom seam)", "disk: documents written to a per-op directory, damaged between write and read (absent, torn, bit-flipped, swapped, emptied, garbage appended)"]
    }
    fn assumptions(&self) -> Vec<&'static str> {
        vec![
            "'currently registered' is per calling thread (the caches are documented as thread-local); a name without a successful registration on that thread must give a Failure",
            "a failed registration leaves the previous registration in place ('side-effect free on error')",
            "validation errors are compared as multisets of (policy id, message prefix); error messages of failures are not compared",
            "converted documents are compared as parsed values",
        ]
    }
    fn reach_probes(&self) -> Vec<&'static str> {
        vec!["reach.reregistration_over_live_name", "reach.failed_reregistration_over_live_name", "reach.stateful_answered_from_cache", "reach.stateful_unregistered_name", "reach.validation_errors_reported", "reach.validation_warnings_without_errors", "reach.partial_undecided", "reach.partial_nontrivial_residuals", "route.json_str"]
    }
}

pub fn warm_up() {
    for i in 0..8u8 {
        for r in 0..2u8 {
            let _ = api_schema(i, r);
            let _ = serde_json::from_value::<ffi::Schema>(schema_doc(i, r)).map(ffi::check_parse_schema);
        }
    }
    let mut rng = Rng::new(11);
    let ps = gen_ps(&mut rng);
    let store = crate::worlds::batched::gen_store(&mut rng);
    let req = gen_req(&mut rng);
    let _ = do_authorize(0, &ps, 1, Some((0, 0)), true, &store, false, &req);
    let _ = do_validate(0, &ps, 1, 0, 0, false);
    let _ = do_format(0, &ps, 80, 2);
    for k in 0..8 {
        let _ = do_convert(0, k, &ps, 0);
    }
}
