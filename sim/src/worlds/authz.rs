//! World `authz` (C01): a long-lived authorizer, histories of policy-set and store edits
//! interleaved with authorization calls, hash-order / insertion-order / id-spelling replicas,
//! and an exact reference model of the decision table over an atom family whose three-valued
//! outcome the model computes independently.

use crate::core::*;
use crate::hashseam::on_fresh_thread;
use crate::rng::{mix, Rng};
use cedar_policy::proto::traits::Protobuf;
use cedar_policy::{Authorizer, AuthorizationError, Context, Decision, Entities, Entity, EntityUid, Policy, PolicyId, PolicySet, Request, RestrictedExpression, SlotId, Template};
use serde::{Deserialize, Serialize};
use std::collections::{BTreeMap, BTreeSet, HashMap, HashSet};
use std::str::FromStr;

/// entity pool: index -> (type, id). Indices 8.. are actions.
pub const ENTS: [(&str, &str); 11] = [("U", "u0"), ("U", "u1"), ("U", "u2"), ("G", "g0"), ("G", "g1"), ("R", "r0"), ("R", "r1"), ("R", "r2"), ("Action", "a0"), ("Action", "a1"), ("Action", "all")];
pub const N_NONACT: u8 = 8;

/// adversarial policy-id spellings
pub const IDS: [&str; 19] = [
    "p", "q", "policy0", "policy1", "policy2", "", "ポリシー", "a\"b", "x y", "0", "policy00", "JSON policy", "P", "p ", " p", "Policy0", "policy10",
    "long-long-long-long-long-long-long-long-long-long-long-long-long-long-long-long-long-long-long-long-long-long-long-long-long-long-long-long-long-long-long-long-long-long-long-long-long-long-long-long-id",
    "\\u{0}",
];

pub fn uid(i: u8) -> EntityUid {
    let (t, id) = ENTS[i as usize % ENTS.len()];
    EntityUid::from_str(&format!("{t}::\"{id}\"")).expect("uid")
}
fn uid_txt(i: u8) -> String {
    let (t, id) = ENTS[i as usize % ENTS.len()];
    format!("{t}::\"{id}\"")
}
fn ty(i: u8) -> &'static str {
    ENTS[i as usize % ENTS.len()].0
}

#[derive(Clone, Debug, Serialize, Deserialize, PartialEq)]
pub enum ScopeC {
    Any,
    Eq(u8),
    In(u8),
    Is(String),
    IsIn(String, u8),
    EqSlot,
    InSlot,
    IsInSlot(String),
}

#[derive(Clone, Debug, Serialize, Deserialize, PartialEq)]
pub enum ActC {
    Any,
    Eq(u8),
    In(Vec<u8>),
}

#[derive(Clone, Debug, Serialize, Deserialize, PartialEq)]
pub enum Atom {
    True,
    False,
    CtxK,
    PrincipalFlag,
    HasFlagAndFlag,
    ResNGtCtxN,
    TypeError,
    OverflowIfCtxNPos,
    PrincipalInResource,
    Contains(u8, u8),
    CtxHasK,
    PrincipalEqResource,
    ResHasNAndNEq(i64),
    NotCtxK,
    ResourceInLit(u8),
    IfCtxKThenFlagElseErr,
    /// `unknown("x")` (the library is built with partial evaluation): never a value, so the policy
    /// cannot be evaluated; concrete authorization reports it among the errors and skips it
    Unknown,
    /// `principal in [A, B]`
    PrincipalInSet(u8, u8),
    /// `principal in [A, B, {x: 1}]` / `.. ip("10.0.0.1")]`: a set with a non-entity element is a type
    /// error whichever element would have matched
    PrincipalInSetWithNonEntity(u8, u8, bool),
}

#[derive(Clone, Debug, Serialize, Deserialize, PartialEq)]
pub struct Pol {
    pub permit: bool,
    pub pc: ScopeC,
    pub ac: ActC,
    pub rc: ScopeC,
    /// (is_when, atom)
    pub clauses: Vec<(bool, Atom)>,
    pub annotated: bool,
}

impl Pol {
    pub fn is_template(&self) -> bool {
        matches!(self.pc, ScopeC::EqSlot | ScopeC::InSlot | ScopeC::IsInSlot(_)) || matches!(self.rc, ScopeC::EqSlot | ScopeC::InSlot | ScopeC::IsInSlot(_))
    }
    pub fn slots(&self) -> (bool, bool) {
        (matches!(self.pc, ScopeC::EqSlot | ScopeC::InSlot | ScopeC::IsInSlot(_)), matches!(self.rc, ScopeC::EqSlot | ScopeC::InSlot | ScopeC::IsInSlot(_)))
    }
    pub fn text(&self) -> String {
        let sc = |var: &str, c: &ScopeC| -> String {
            match c {
                ScopeC::Any => var.to_string(),
                ScopeC::Eq(e) => format!("{var} == {}", uid_txt(*e)),
                ScopeC::In(e) => format!("{var} in {}", uid_txt(*e)),
                ScopeC::Is(t) => format!("{var} is {t}"),
                ScopeC::IsIn(t, e) => format!("{var} is {t} in {}", uid_txt(*e)),
                ScopeC::EqSlot => format!("{var} == ?{var}"),
                ScopeC::InSlot => format!("{var} in ?{var}"),
                ScopeC::IsInSlot(t) => format!("{var} is {t} in ?{var}"),
            }
        };
        let ac = match &self.ac {
            ActC::Any => "action".to_string(),
            ActC::Eq(a) => format!("action == {}", uid_txt(*a)),
            ActC::In(v) => format!("action in [{}]", v.iter().map(|a| uid_txt(*a)).collect::<Vec<_>>().join(", ")),
        };
        let mut s = String::new();
        if self.annotated {
            s.push_str("@note(\"x\") ");
        }
        s.push_str(if self.permit { "permit" } else { "forbid" });
        s.push_str(&format!("({}, {}, {})", sc("principal", &self.pc), ac, sc("resource", &self.rc)));
        for (w, a) in &self.clauses {
            s.push_str(if *w { " when { " } else { " unless { " });
            s.push_str(&atom_text(a));
            s.push_str(" }");
        }
        s.push(';');
        s
    }
}

fn atom_text(a: &Atom) -> String {
    match a {
        Atom::True => "true".into(),
        Atom::False => "false".into(),
        Atom::CtxK => "context.k".into(),
        Atom::PrincipalFlag => "principal.flag".into(),
        Atom::HasFlagAndFlag => "principal has flag && principal.flag".into(),
        Atom::ResNGtCtxN => "resource.n > context.n".into(),
        Atom::TypeError => "1 + \"a\" == 2".into(),
        Atom::OverflowIfCtxNPos => "9223372036854775807 + context.n > 0".into(),
        Atom::PrincipalInResource => "principal in resource".into(),
        Atom::Contains(a, b) => format!("[{}, {}].contains(principal)", uid_txt(*a), uid_txt(*b)),
        Atom::CtxHasK => "context has k".into(),
        Atom::PrincipalEqResource => "principal == resource".into(),
        Atom::ResHasNAndNEq(v) => format!("resource has n && resource.n == {v}"),
        Atom::NotCtxK => "!context.k".into(),
        Atom::ResourceInLit(e) => format!("resource in {}", uid_txt(*e)),
        Atom::PrincipalInSet(a, b) => format!("principal in [{}, {}]", uid_txt(*a), uid_txt(*b)),
        Atom::PrincipalInSetWithNonEntity(a, b, rec) => format!("principal in [{}, {}, {}]", uid_txt(*a), uid_txt(*b), if *rec { "{x: 1}" } else { "ip(\"10.0.0.1\")" }),
        Atom::IfCtxKThenFlagElseErr => "if context.k then principal.flag else 1 + true".into(),
        Atom::Unknown => "unknown(\"x\")".into(),
    }
}

#[derive(Clone, Debug, Serialize, Deserialize, PartialEq)]
pub struct EntRec {
    pub idx: u8,
    pub parents: Vec<u8>,
    pub flag: Option<bool>,
    pub n: Option<i64>,
}

#[derive(Clone, Debug, Serialize, Deserialize, PartialEq)]
pub struct Req {
    pub p: u8,
    pub a: u8,
    pub r: u8,
    pub k: Option<bool>,
    pub n: Option<i64>,
}

#[derive(Clone, Debug, Serialize, Deserialize, PartialEq)]
#[serde(tag = "op")]
pub enum Op {
    AddStatic { id: u8, pol: Pol },
    AddTemplate { id: u8, pol: Pol },
    Link { tid: u8, id: u8, p: Option<u8>, r: Option<u8> },
    Unlink { id: u8 },
    RemoveStatic { id: u8 },
    RemoveTemplate { id: u8 },
    Upsert { ents: Vec<EntRec> },
    Remove { ids: Vec<u8> },
    Auth { req: Req },
    AuthAgain { k: u8 },
    /// rebuild the current logical state on a fresh thread (other hash order, permuted insertion
    /// orders, respelled ids) and re-issue every request seen so far
    Rebuild { seed: u64, perm: u64, route: u8 },
}

#[derive(Clone, Debug, Serialize, Deserialize)]
pub struct Case {
    pub hash_seed: u64,
    pub ops: Vec<Op>,
}

// ---------------------------------------------------------------- reference model

#[derive(Clone, Debug, PartialEq)]
pub enum Item {
    Static(Pol),
    Template(Pol),
    Link(u8, Option<u8>, Option<u8>), // template id index, bindings
}

#[derive(Clone, Debug, Default)]
pub struct Model {
    pub items: BTreeMap<u8, Item>,
    pub ents: BTreeMap<u8, EntRec>,
}

#[derive(Clone, Copy, Debug, PartialEq, Eq, PartialOrd, Ord)]
pub enum Tri {
    Sat,
    Unsat,
    Err,
}

impl Model {
    fn reach(&self, e: u8) -> BTreeSet<u8> {
        let mut out = BTreeSet::new();
        let mut stack: Vec<u8> = self.ents.get(&e).map(|r| r.parents.clone()).unwrap_or_default();
        while let Some(x) = stack.pop() {
            if out.insert(x) {
                if let Some(r) = self.ents.get(&x) {
                    stack.extend(r.parents.iter().copied());
                }
            }
        }
        out
    }
    fn is_in(&self, e: u8, a: u8) -> bool {
        e == a || self.reach(e).contains(&a)
    }
    fn scope(&self, c: &ScopeC, v: u8, slot: Option<u8>) -> bool {
        match c {
            ScopeC::Any => true,
            ScopeC::Eq(e) => v == *e,
            ScopeC::In(e) => self.is_in(v, *e),
            ScopeC::Is(t) => ty(v) == t,
            ScopeC::IsIn(t, e) => ty(v) == t && self.is_in(v, *e),
            ScopeC::EqSlot => slot.is_some_and(|s| v == s),
            ScopeC::InSlot => slot.is_some_and(|s| self.is_in(v, s)),
            ScopeC::IsInSlot(t) => ty(v) == t && slot.is_some_and(|s| self.is_in(v, s)),
        }
    }
    /// three-valued boolean of an atom: Ok(bool) or Err(())
    fn atom(&self, a: &Atom, q: &Req) -> Result<bool, ()> {
        let pflag = || -> Result<bool, ()> { self.ents.get(&q.p).ok_or(())?.flag.ok_or(()) };
        match a {
            Atom::True => Ok(true),
            Atom::False => Ok(false),
            Atom::CtxK => q.k.ok_or(()),
            Atom::NotCtxK => q.k.map(|b| !b).ok_or(()),
            Atom::PrincipalFlag => pflag(),
            Atom::HasFlagAndFlag => match self.ents.get(&q.p).and_then(|e| e.flag) {
                None => Ok(false),
                Some(f) => Ok(f),
            },
            Atom::ResNGtCtxN => {
                let rn = self.ents.get(&q.r).ok_or(())?.n.ok_or(())?;
                let cn = q.n.ok_or(())?;
                Ok(rn > cn)
            }
            Atom::TypeError | Atom::Unknown => Err(()),
            Atom::OverflowIfCtxNPos => {
                let cn = q.n.ok_or(())?;
                let s = i64::MAX.checked_add(cn).ok_or(())?;
                Ok(s > 0)
            }
            Atom::PrincipalInResource => Ok(self.is_in(q.p, q.r)),
            Atom::Contains(x, y) => Ok(q.p == *x || q.p == *y),
            Atom::CtxHasK => Ok(q.k.is_some()),
            Atom::PrincipalEqResource => Ok(q.p == q.r),
            Atom::ResHasNAndNEq(v) => match self.ents.get(&q.r).and_then(|e| e.n) {
                None => Ok(false),
                Some(n) => Ok(n == *v),
            },
            Atom::ResourceInLit(e) => Ok(self.is_in(q.r, *e)),
            Atom::PrincipalInSet(a, b) => Ok(self.is_in(q.p, *a) || self.is_in(q.p, *b)),
            Atom::PrincipalInSetWithNonEntity(..) => Err(()),
            Atom::IfCtxKThenFlagElseErr => {
                if q.k.ok_or(())? {
                    pflag()
                } else {
                    Err(())
                }
            }
        }
    }
    pub fn eval(&self, pol: &Pol, sp: Option<u8>, sr: Option<u8>, q: &Req) -> Tri {
        // scope && when.. && !unless.., left to right with short circuit
        if !self.scope(&pol.pc, q.p, sp) {
            return Tri::Unsat;
        }
        let act = match &pol.ac {
            ActC::Any => true,
            ActC::Eq(a) => q.a == *a,
            ActC::In(v) => v.iter().any(|a| self.is_in(q.a, *a)),
        };
        if !act {
            return Tri::Unsat;
        }
        if !self.scope(&pol.rc, q.r, sr) {
            return Tri::Unsat;
        }
        for (is_when, a) in &pol.clauses {
            match self.atom(a, q) {
                Err(()) => return Tri::Err,
                Ok(b) => {
                    if b != *is_when {
                        return Tri::Unsat;
                    }
                }
            }
        }
        Tri::Sat
    }
    /// (allow, reasons, errors, class multiset) over policy-id indices
    fn expected(&self, q: &Req) -> (bool, BTreeSet<u8>, BTreeSet<u8>, BTreeSet<(bool, Tri)>) {
        let mut permits = BTreeSet::new();
        let mut forbids = BTreeSet::new();
        let mut errors = BTreeSet::new();
        let mut classes = BTreeSet::new();
        for (id, it) in &self.items {
            let (pol, sp, sr) = match it {
                Item::Static(p) => (p, None, None),
                Item::Template(_) => continue,
                Item::Link(t, sp, sr) => match self.items.get(t) {
                    Some(Item::Template(p)) => (p, *sp, *sr),
                    _ => continue,
                },
            };
            let o = self.eval(pol, sp, sr, q);
            classes.insert((pol.permit, o));
            match o {
                Tri::Sat => {
                    if pol.permit {
                        permits.insert(*id);
                    } else {
                        forbids.insert(*id);
                    }
                }
                Tri::Err => {
                    errors.insert(*id);
                }
                Tri::Unsat => {}
            }
        }
        if !forbids.is_empty() {
            (false, forbids, errors, classes)
        } else if !permits.is_empty() {
            (true, permits, errors, classes)
        } else {
            (false, BTreeSet::new(), errors, classes)
        }
    }
    fn n_policies(&self) -> usize {
        self.items.values().filter(|i| !matches!(i, Item::Template(_))).count()
    }
}

// ---------------------------------------------------------------- real objects

pub fn mk_entity(r: &EntRec) -> Entity {
    let mut attrs: HashMap<String, RestrictedExpression> = HashMap::new();
    if let Some(f) = r.flag {
        attrs.insert("flag".into(), RestrictedExpression::new_bool(f));
    }
    if let Some(n) = r.n {
        attrs.insert("n".into(), RestrictedExpression::new_long(n));
    }
    let parents: HashSet<EntityUid> = r.parents.iter().map(|p| uid(*p)).collect();
    Entity::new(uid(r.idx), attrs, parents).expect("literal attributes evaluate")
}

pub fn mk_request(q: &Req) -> Option<Request> {
    let mut pairs: Vec<(String, RestrictedExpression)> = vec![];
    if let Some(k) = q.k {
        pairs.push(("k".into(), RestrictedExpression::new_bool(k)));
    }
    if let Some(n) = q.n {
        pairs.push(("n".into(), RestrictedExpression::new_long(n)));
    }
    let ctx = Context::from_pairs(pairs).ok()?;
    Request::new(uid(q.p), uid(q.a), uid(q.r), ctx, None).ok()
}

/// the id as spelled by the caller (Display escapes quotes and backslashes)
pub fn raw_id(p: &PolicyId) -> String {
    let s: &str = p.as_ref();
    s.to_string()
}

pub fn err_id(e: &AuthorizationError) -> String {
    match e {
        AuthorizationError::PolicyEvaluationError(pe) => raw_id(pe.policy_id()),
    }
}

/// observed response in comparable form
pub fn observe(auth: &Authorizer, req: &Request, ps: &PolicySet, store: &Entities) -> (bool, BTreeSet<String>, BTreeSet<String>, usize) {
    let resp = auth.is_authorized(req, ps, store);
    let reasons: BTreeSet<String> = resp.diagnostics().reason().map(raw_id).collect();
    let errs: Vec<String> = resp.diagnostics().errors().map(err_id).collect();
    let n = errs.len();
    (resp.decision() == Decision::Allow, reasons, errs.into_iter().collect(), n)
}

fn compare(m: &Model, q: &Req, got: &(bool, BTreeSet<String>, BTreeSet<String>, usize), spell: &dyn Fn(u8) -> String, step: usize, whose: &str) -> Option<Violation> {
    let (allow, reasons, errors, _) = m.expected(q);
    let want_r: BTreeSet<String> = reasons.iter().map(|i| spell(*i)).collect();
    let want_e: BTreeSet<String> = errors.iter().map(|i| spell(*i)).collect();
    if got.0 != allow {
        return Some(Violation::new("decision", format!("{whose} decision"), step, format!("{} for {q:?}", if allow { "Allow" } else { "Deny" }), format!("{}", if got.0 { "Allow" } else { "Deny" })));
    }
    if got.1 != want_r {
        return Some(Violation::new("reasons", format!("{whose} reason set"), step, format!("{want_r:?} for {q:?}"), format!("{:?}", got.1)));
    }
    if got.2 != want_e || got.3 != want_e.len() {
        return Some(Violation::new("errors", format!("{whose} error ids"), step, format!("{want_e:?} for {q:?}"), format!("{:?} ({} entries)", got.2, got.3)));
    }
    None
}

/// Build real objects for a model state through a given route and check every request.
/// route 0: same ids, permuted insertion; route 1: ids respelled through a bijection;
/// route 2: statics and templates parsed from one concatenated text (auto-numbered ids), links added afterwards;
/// route 3 / 4: as route 0, then the whole set through its JSON / protobuf round trip.
fn replica_check(m: &Model, reqs: &[Req], perm: u64, route: u8, step: usize, obs: &mut Obs) -> Option<Violation> {
    let mut rng = Rng::new(perm);
    let mut order: Vec<u8> = m.items.keys().copied().collect();
    rng.shuffle(&mut order);
    // id spelling
    let mut spell_map: BTreeMap<u8, String> = BTreeMap::new();
    match route {
        1 => {
            let mut pool: Vec<usize> = (0..IDS.len()).collect();
            rng.shuffle(&mut pool);
            for (k, i) in m.items.keys().enumerate() {
                spell_map.insert(*i, IDS[pool[k % pool.len()]].to_string());
            }
        }
        2 => {
            // auto-numbering follows text order of statics and templates; links get fresh spellings
            let mut k = 0;
            for i in &order {
                if !matches!(m.items[i], Item::Link(..)) {
                    spell_map.insert(*i, format!("policy{k}"));
                    k += 1;
                }
            }
            for i in &order {
                if matches!(m.items[i], Item::Link(..)) {
                    spell_map.insert(*i, format!("link-{i}"));
                }
            }
        }
        _ => {
            for i in m.items.keys() {
                spell_map.insert(*i, IDS[*i as usize % IDS.len()].to_string());
            }
        }
    }
    let spell = |i: u8| spell_map.get(&i).cloned().unwrap_or_default();
    let mut ps = PolicySet::new();
    if route == 2 {
        let mut src = String::new();
        for i in &order {
            match &m.items[i] {
                Item::Static(p) | Item::Template(p) => {
                    src.push_str(&p.text());
                    src.push('\n');
                }
                Item::Link(..) => {}
            }
        }
        ps = match PolicySet::from_str(&src) {
            Ok(p) => p,
            Err(e) => return Some(Violation::new("replica_build", "route2 from_str", step, "concatenated policy text parses", format!("{e}"))),
        };
    } else {
        // templates and statics first (permuted), then links (permuted)
        for i in &order {
            let r = match &m.items[i] {
                Item::Static(p) => Policy::parse(Some(PolicyId::new(spell(*i))), p.text()).map_err(|e| e.to_string()).and_then(|p| ps.add(p).map_err(|e| e.to_string())),
                Item::Template(p) => Template::parse(Some(PolicyId::new(spell(*i))), p.text()).map_err(|e| e.to_string()).and_then(|t| ps.add_template(t).map_err(|e| e.to_string())),
                Item::Link(..) => Ok(()),
            };
            if let Err(e) = r {
                return Some(Violation::new("replica_build", format!("route{route} add"), step, "the replica's policy set can be rebuilt", e));
            }
        }
    }
    for i in &order {
        if let Item::Link(t, sp, sr) = &m.items[i] {
            let mut vals = HashMap::new();
            if let Some(e) = sp {
                vals.insert(SlotId::principal(), uid(*e));
            }
            if let Some(e) = sr {
                vals.insert(SlotId::resource(), uid(*e));
            }
            if let Err(e) = ps.link(PolicyId::new(spell(*t)), PolicyId::new(spell(*i)), vals) {
                return Some(Violation::new("replica_build", format!("route{route} link"), step, "the replica's links can be rebuilt", e.to_string()));
            }
        }
    }
    // routes 3 and 4: the set is additionally sent through its own JSON / protobuf round trip
    if route == 3 {
        ps = match ps.clone().to_json().map_err(|e| e.to_string()).and_then(|j| PolicySet::from_json_value(j).map_err(|e| e.to_string())) {
            Ok(p) => p,
            Err(e) => return Some(Violation::new("replica_build", "route3 json round trip", step, "the policy set survives to_json/from_json", e)),
        };
    }
    // (protobuf cannot carry `unknown(..)`: C20's open finding; such sets take the JSON route twice)
    let has_unknown = m.items.values().any(|it| match it {
        Item::Static(p) | Item::Template(p) => p.clauses.iter().any(|(_, a)| *a == Atom::Unknown),
        Item::Link(..) => false,
    });
    if route == 4 && has_unknown {
        ps = match ps.clone().to_json().map_err(|e| e.to_string()).and_then(|j| PolicySet::from_json_value(j).map_err(|e| e.to_string())) {
            Ok(p) => p,
            Err(e) => return Some(Violation::new("replica_build", "route3 json round trip", step, "the policy set survives to_json/from_json", e)),
        };
    }
    if route == 4 && !has_unknown {
        ps = match ps.encode().map_err(|e| e.to_string()).and_then(|b| PolicySet::decode(&b[..]).map_err(|e| e.to_string())) {
            Ok(p) => p,
            Err(e) => return Some(Violation::new("replica_build", "route4 protobuf round trip", step, "the policy set survives encode/decode", e)),
        };
    }
    // entities in permuted order, sometimes in two batches
    let mut recs: Vec<&EntRec> = m.ents.values().collect();
    rng.shuffle(&mut recs);
    let split = if recs.len() > 1 && rng.pct(50) { rng.range(1, recs.len() - 1) } else { recs.len() };
    let store = Entities::from_entities(recs[..split].iter().map(|r| mk_entity(r)), None).and_then(|s| s.add_entities(recs[split..].iter().map(|r| mk_entity(r)), None));
    let mut store = match store {
        Ok(s) => s,
        Err(e) => return Some(Violation::new("replica_build", format!("route{route} store"), step, "the replica's store can be rebuilt", e.to_string())),
    };
    // sometimes the store, too, goes through its JSON or protobuf form
    match rng.below(4) {
        0 => {
            if let Ok(s2) = store.to_json_value().and_then(|v| Entities::from_json_value(v, None)) {
                store = s2;
            }
        }
        1 => {
            if let Some(s2) = store.encode().ok().and_then(|b| Entities::decode(&b[..]).ok()) {
                store = s2;
            }
        }
        _ => {}
    }
    let auth = Authorizer::new();
    let mut rq: Vec<&Req> = reqs.iter().collect();
    rng.shuffle(&mut rq);
    for q in rq {
        let Some(req) = mk_request(q) else { continue };
        let got = observe(&auth, &req, &ps, &store);
        obs.count("evaluations");
        obs.count("replica_responses_checked");
        if let Some(v) = compare(m, q, &got, &spell, step, &format!("replica(route{route})")) {
            return Some(v);
        }
    }
    None
}

pub struct Authz;

fn run(case: &Case, obs: &mut Obs) -> Option<Violation> {
    let auth = Authorizer::new(); // lives for the whole run
    let mut ps = PolicySet::new();
    let mut store = Entities::empty();
    let mut m = Model::default();
    let mut version = 0u64;
    let mut issued: Vec<Req> = vec![];
    // (request index, model version at that time, observed)
    let mut seen: Vec<(usize, u64, (bool, BTreeSet<String>, BTreeSet<String>, usize))> = vec![];
    let spell = |i: u8| IDS[i as usize % IDS.len()].to_string();
    let pid = |i: u8| PolicyId::new(IDS[i as usize % IDS.len()]);
    let mut trail = 0u64;
    for (step, op) in case.ops.iter().enumerate() {
        obs.count("logical_steps");
        match op {
            Op::AddStatic { id, pol } => {
                if pol.is_template() {
                    continue;
                }
                let ok = Policy::parse(Some(pid(*id)), pol.text()).ok().map(|p| ps.add(p).is_ok());
                match ok {
                    Some(true) => {
                        m.items.insert(*id, Item::Static(pol.clone()));
                        version += 1;
                        obs.event(format!("{step} add ok"));
                    }
                    Some(false) => {
                        obs.count("designed_failures_observed");
                        obs.event(format!("{step} add err"));
                    }
                    None => return Some(Violation::new("harness_policy_text", "policy text of the atom family does not parse", step, "parses", pol.text())),
                }
            }
            Op::AddTemplate { id, pol } => {
                if !pol.is_template() {
                    continue;
                }
                let ok = Template::parse(Some(pid(*id)), pol.text()).ok().map(|t| ps.add_template(t).is_ok());
                match ok {
                    Some(true) => {
                        m.items.insert(*id, Item::Template(pol.clone()));
                        version += 1;
                        obs.event(format!("{step} add_template ok"));
                    }
                    Some(false) => {
                        obs.count("designed_failures_observed");
                        obs.event(format!("{step} add_template err"));
                    }
                    None => return Some(Violation::new("harness_policy_text", "template text of the atom family does not parse", step, "parses", pol.text())),
                }
            }
            Op::Link { tid, id, p, r } => {
                let mut vals = HashMap::new();
                if let Some(e) = p {
                    vals.insert(SlotId::principal(), uid(*e));
                }
                if let Some(e) = r {
                    vals.insert(SlotId::resource(), uid(*e));
                }
                if ps.link(pid(*tid), pid(*id), vals).is_ok() {
                    m.items.insert(*id, Item::Link(*tid, *p, *r));
                    version += 1;
                    obs.count("links_created");
                    obs.event(format!("{step} link ok"));
                } else {
                    obs.count("designed_failures_observed");
                    obs.event(format!("{step} link err"));
                }
            }
            Op::Unlink { id } => {
                if ps.unlink(pid(*id)).is_ok() {
                    m.items.remove(id);
                    version += 1;
                } else {
                    obs.count("designed_failures_observed");
                }
            }
            Op::RemoveStatic { id } => {
                if ps.remove_static(pid(*id)).is_ok() {
                    m.items.remove(id);
                    version += 1;
                } else {
                    obs.count("designed_failures_observed");
                }
            }
            Op::RemoveTemplate { id } => {
                if ps.remove_template(pid(*id)).is_ok() {
                    m.items.remove(id);
                    version += 1;
                } else {
                    obs.count("designed_failures_observed");
                }
            }
            Op::Upsert { ents } => match store.clone().upsert_entities(ents.iter().map(mk_entity), None) {
                Ok(s) => {
                    store = s;
                    for e in ents {
                        m.ents.insert(e.idx, e.clone());
                    }
                    version += 1;
                    obs.event(format!("{step} upsert ok"));
                }
                Err(_) => {
                    obs.count("designed_failures_observed");
                    obs.event(format!("{step} upsert err"));
                }
            },
            Op::Remove { ids } => match store.clone().remove_entities(ids.iter().map(|i| uid(*i))) {
                Ok(s) => {
                    store = s;
                    for u in ids {
                        if m.ents.remove(u).is_some() {
                            for e in m.ents.values_mut() {
                                e.parents.retain(|p| p != u);
                            }
                        }
                    }
                    version += 1;
                }
                Err(_) => {
                    obs.count("designed_failures_observed");
                }
            },
            Op::Auth { req } => {
                let Some(rq) = mk_request(req) else { continue };
                let got = observe(&auth, &rq, &ps, &store);
                obs.count("evaluations");
                obs.event(format!("{step} auth {:?} {:?} {:?}", got.0, got.1, got.2));
                if let Some(v) = compare(&m, req, &got, &spell, step, "authorize") {
                    return Some(v);
                }
                let (_, _, _, classes) = m.expected(req);
                if m.n_policies() >= 2 && classes.len() >= 2 {
                    let mut fp = if got.0 { 1 } else { 2 };
                    for (p, t) in &classes {
                        fp = mix(&[fp, *p as u64, *t as u64]);
                    }
                    fp = mix(&[fp, m.n_policies() as u64, got.1.len() as u64, got.2.len() as u64]);
                    obs.mark("nontrivial", mix(&[fp, trail]));
                    obs.count("reach.mixed_classes_response");
                }
                if classes.contains(&(false, Tri::Err)) && classes.contains(&(true, Tri::Sat)) {
                    obs.count("reach.erroring_forbid_with_satisfied_permit");
                }
                if classes.contains(&(false, Tri::Sat)) && classes.contains(&(true, Tri::Sat)) {
                    obs.count("reach.forbid_overrides_permit");
                }
                {
                    let (_, _, _, _) = (0, 0, 0, 0);
                    let sat_permits = m.items.iter().filter(|(_, it)| match it {
                        Item::Static(p) => p.permit && m.eval(p, None, None, req) == Tri::Sat,
                        Item::Link(t, sp, sr) => matches!(m.items.get(t), Some(Item::Template(p)) if p.permit && m.eval(p, *sp, *sr, req) == Tri::Sat),
                        _ => false,
                    }).count();
                    if sat_permits >= 4 && classes.contains(&(false, Tri::Sat)) {
                        obs.count("reach.many_permits_one_forbid");
                    }
                    if sat_permits >= 4 {
                        obs.count("reach.four_or_more_satisfied_permits");
                    }
                }
                if m.n_policies() > 0 && classes.iter().all(|(_, t)| *t == Tri::Err) {
                    obs.count("reach.all_policies_error");
                }
                trail = mix(&[trail, got.0 as u64, got.1.len() as u64]);
                issued.push(req.clone());
                seen.push((issued.len() - 1, version, got));
            }
            Op::AuthAgain { k } => {
                if seen.is_empty() {
                    continue;
                }
                let (ri, ver, before) = seen[*k as usize % seen.len()].clone();
                let req = issued[ri].clone();
                let Some(rq) = mk_request(&req) else { continue };
                let got = observe(&auth, &rq, &ps, &store);
                obs.count("evaluations");
                obs.event(format!("{step} again {:?} {:?} {:?}", got.0, got.1, got.2));
                if let Some(v) = compare(&m, &req, &got, &spell, step, "authorize_again") {
                    return Some(v);
                }
                if ver == version {
                    obs.count("reach.reissued_on_unchanged_state");
                    if got != before {
                        return Some(Violation::new("history_dependence", "same request, unchanged inputs, different response", step, format!("{before:?}"), format!("{got:?}")));
                    }
                }
            }
            Op::Rebuild { seed, perm, route } => {
                let mm = m.clone();
                let reqs = issued.clone();
                let (perm, route) = (*perm, *route);
                let known = obs.known.clone();
                let prop = obs.property.clone();
                obs.count("fault.hash_order_replica");
                obs.count(&format!("fault.replica_route{route}"));
                let r = on_fresh_thread(*seed, 16, move || {
                    let mut o = Obs::new(&prop, known, false);
                    let v = replica_check(&mm, &reqs, perm, route, step, &mut o);
                    (o, v)
                });
                match r {
                    Ok((o, v)) => {
                        obs.merge(&o);
                        obs.event(format!("{step} rebuild {}", v.is_some()));
                        if v.is_some() {
                            return v;
                        }
                    }
                    Err(msg) => return Some(Violation::new("panic", format!("panic in replica: {}", msg.chars().take(120).collect::<String>()), step, "no panic", msg)),
                }
            }
        }
        let mut fp = version;
        for (k, it) in &m.items {
            fp = mix(&[fp, *k as u64, matches!(it, Item::Link(..)) as u64]);
        }
        obs.mark("model_states", mix(&[fp, m.ents.len() as u64]));
    }
    obs.mark("schedules", mix(&[trail, case.hash_seed]));
    None
}

// ---------------------------------------------------------------- generator

fn gen_scope(rng: &mut Rng, allow_slot: bool) -> ScopeC {
    let e = rng.below(N_NONACT as usize) as u8;
    let t = rng.pick(&["U", "G", "R"]).to_string();
    match rng.below(if allow_slot { 11 } else { 8 }) {
        0 | 1 | 2 => ScopeC::Any,
        3 => ScopeC::Eq(e),
        4 | 5 => ScopeC::In(e),
        6 => ScopeC::Is(t),
        7 => ScopeC::IsIn(t, e),
        8 => ScopeC::EqSlot,
        9 => ScopeC::InSlot,
        _ => ScopeC::IsInSlot(t),
    }
}

fn gen_atom(rng: &mut Rng) -> Atom {
    match rng.below(20) {
        18 => Atom::PrincipalInSet(rng.below(N_NONACT as usize) as u8, rng.below(N_NONACT as usize) as u8),
        19 => Atom::PrincipalInSetWithNonEntity(rng.below(N_NONACT as usize) as u8, rng.below(N_NONACT as usize) as u8, rng.pct(50)),
        0 | 1 => Atom::True,
        2 => Atom::False,
        3 => Atom::CtxK,
        4 => Atom::PrincipalFlag,
        5 => Atom::HasFlagAndFlag,
        6 => Atom::ResNGtCtxN,
        7 => Atom::TypeError,
        8 => Atom::OverflowIfCtxNPos,
        9 => Atom::PrincipalInResource,
        10 => Atom::Contains(rng.below(N_NONACT as usize) as u8, rng.below(N_NONACT as usize) as u8),
        11 => Atom::CtxHasK,
        12 => Atom::PrincipalEqResource,
        13 => Atom::ResHasNAndNEq(rng.below(4) as i64 - 1),
        14 => Atom::NotCtxK,
        15 => Atom::ResourceInLit(rng.below(N_NONACT as usize) as u8),
        16 => Atom::IfCtxKThenFlagElseErr,
        17 if rng.pct(60) => Atom::Unknown,
        _ => Atom::True,
    }
}

pub fn gen_pol(rng: &mut Rng, template: bool) -> Pol {
    loop {
        let pc = gen_scope(rng, template);
        let rc = gen_scope(rng, template);
        let ac = match rng.below(5) {
            0 | 1 => ActC::Any,
            2 => ActC::Eq(8 + rng.below(3) as u8),
            _ => ActC::In((0..rng.range(1, 2)).map(|_| 8 + rng.below(3) as u8).collect()),
        };
        let nc = *rng.pick(&[0usize, 0, 1, 1, 1, 2]);
        let clauses = (0..nc).map(|_| (rng.pct(70), gen_atom(rng))).collect();
        let p = Pol { permit: rng.pct(60), pc, ac, rc, clauses, annotated: rng.pct(20) };
        if p.is_template() == template {
            return p;
        }
    }
}

/// a policy that is satisfied on most requests (used by "flood" runs: many satisfied permits and a few forbids)
pub fn gen_pol_easy(rng: &mut Rng) -> Pol {
    let sc = |rng: &mut Rng| if rng.pct(80) { ScopeC::Any } else { ScopeC::Is(rng.pick_str(&["U", "G", "R"]).to_string()) };
    let lit = rng.below(N_NONACT as usize) as u8;
    let clauses = if rng.pct(60) { vec![] } else { vec![(true, rng.pick(&[Atom::True, Atom::CtxHasK, Atom::True, Atom::ResourceInLit(lit)]).clone())] };
    Pol { permit: rng.pct(80), pc: sc(rng), ac: ActC::Any, rc: sc(rng), clauses, annotated: false }
}

pub fn gen_ent(rng: &mut Rng, idx: u8) -> EntRec {
    // parents only among higher indices of the same kind (actions among actions): no cycles here
    let mut parents = vec![];
    let hi = if idx >= N_NONACT { ENTS.len() as u8 } else { N_NONACT };
    for p in (idx + 1)..hi {
        if rng.pct(30) {
            parents.push(p);
        }
    }
    EntRec { idx, parents, flag: if rng.pct(65) { Some(rng.pct(50)) } else { None }, n: if rng.pct(65) { Some(rng.below(5) as i64 - 1) } else { None } }
}

pub fn gen_req(rng: &mut Rng) -> Req {
    Req {
        p: rng.below(N_NONACT as usize) as u8,
        a: 8 + rng.below(3) as u8,
        r: rng.below(N_NONACT as usize) as u8,
        k: if rng.pct(70) { Some(rng.pct(50)) } else { None },
        n: if rng.pct(70) { Some(*rng.pick(&[-2i64, -1, 0, 0, 1, 2, 9])) } else { None },
    }
}

impl World for Authz {
    type Case = Case;
    fn property(&self) -> &'static str {
        "C01"
    }
    fn name(&self) -> &'static str {
        "authz"
    }
    fn runs(&self, tier: Tier) -> u64 {
        match tier {
            Tier::Quick => 60_000,
            Tier::Thorough => 1_200_000,
        }
    }
    fn generate(&self, seed: u64, _tier: Tier) -> Case {
        let mut rng = Rng::sub(seed, "workload");
        let mut hs = Rng::sub(seed, "hashkeys");
        let idpool = rng.range(4, IDS.len());
        // swarm: "flood" runs build large sets of mostly satisfied policies
        let flood = rng.pct(25);
        let nops = if flood { rng.range(20, 45) } else { rng.range(6, 40) };
        let mut ops = vec![];
        // initial store
        let mut first = vec![];
        for i in 0..ENTS.len() as u8 {
            if rng.pct(65) {
                first.push(gen_ent(&mut rng, i));
            }
        }
        rng.shuffle(&mut first);
        ops.push(Op::Upsert { ents: first });
        // the generator tracks ids roughly, to keep most edits meaningful
        let mut statics: Vec<u8> = vec![];
        let mut templates: Vec<(u8, (bool, bool))> = vec![];
        let mut links: Vec<u8> = vec![];
        // which template each link was created from (for the churn pattern)
        let mut link_of: Vec<(u8, u8)> = vec![];
        let w: Vec<u32> = if flood { vec![30, 2, 3, 1, 1, 1, 2, 1, 12, 2, 2] } else { vec![16, 4, 7, 1, 2, 1, 3, 1, 14, 3, 2] };
        while ops.len() < nops {
            if rng.pct(4) && !templates.is_empty() {
                // churn: retire a template (unlink its links, remove it), define another template
                // under the same id and link it again under a previously used link id
                let (tid, _) = *rng.pick(&templates);
                let old_links: Vec<u8> = link_of.iter().filter(|(_, t)| *t == tid).map(|(l, _)| *l).collect();
                for l in &old_links {
                    ops.push(Op::Unlink { id: *l });
                }
                ops.push(Op::RemoveTemplate { id: tid });
                let pol = gen_pol(&mut rng, true);
                let (sp, sr) = pol.slots();
                templates.retain(|t| t.0 != tid);
                templates.push((tid, (sp, sr)));
                ops.push(Op::AddTemplate { id: tid, pol });
                link_of.retain(|(_, t)| *t != tid);
                links.retain(|l| !old_links.contains(l));
                let lid = old_links.first().copied().unwrap_or(rng.below(idpool) as u8);
                let p = if sp { Some(rng.below(N_NONACT as usize) as u8) } else { None };
                let r = if sr { Some(rng.below(N_NONACT as usize) as u8) } else { None };
                ops.push(Op::Link { tid, id: lid, p, r });
                links.push(lid);
                link_of.push((lid, tid));
                ops.push(Op::Auth { req: gen_req(&mut rng) });
                continue;
            }
            if rng.pct(3) && !statics.is_empty() {
                // churn: a static policy is removed and another one is added under the same id
                let id = *rng.pick(&statics);
                ops.push(Op::RemoveStatic { id });
                ops.push(Op::AddStatic { id, pol: gen_pol(&mut rng, false) });
                ops.push(Op::Auth { req: gen_req(&mut rng) });
                continue;
            }
            match rng.weighted(&w) {
                0 => {
                    let mut id = rng.below(idpool) as u8;
                    if flood {
                        // prefer unused ids so that the set really grows
                        for _ in 0..6 {
                            if !statics.contains(&id) && !links.contains(&id) && !templates.iter().any(|t| t.0 == id) {
                                break;
                            }
                            id = rng.below(IDS.len()) as u8;
                        }
                    }
                    if !statics.contains(&id) && !links.contains(&id) && !templates.iter().any(|t| t.0 == id) {
                        statics.push(id);
                    }
                    let pol = if flood && rng.pct(80) { gen_pol_easy(&mut rng) } else { gen_pol(&mut rng, false) };
                    ops.push(Op::AddStatic { id, pol });
                }
                1 => {
                    let id = rng.below(idpool) as u8;
                    let pol = gen_pol(&mut rng, true);
                    if !statics.contains(&id) && !links.contains(&id) && !templates.iter().any(|t| t.0 == id) {
                        templates.push((id, pol.slots()));
                    }
                    ops.push(Op::AddTemplate { id, pol });
                }
                2 => {
                    let id = rng.below(idpool) as u8;
                    if let Some((tid, (sp, sr))) = if templates.is_empty() { None } else { Some(*rng.pick(&templates)) } {
                        let exact = rng.pct(85);
                        let p = if sp == exact { Some(rng.below(N_NONACT as usize) as u8) } else { None };
                        let r = if sr == exact { Some(rng.below(N_NONACT as usize) as u8) } else { None };
                        if exact && !statics.contains(&id) && !links.contains(&id) && !templates.iter().any(|t| t.0 == id) {
                            links.push(id);
                            link_of.push((id, tid));
                        }
                        ops.push(Op::Link { tid, id, p, r });
                    } else {
                        ops.push(Op::Link { tid: rng.below(idpool) as u8, id, p: Some(0), r: None });
                    }
                }
                3 => {
                    let id = if !links.is_empty() && rng.pct(70) { *rng.pick(&links) } else { rng.below(idpool) as u8 };
                    links.retain(|x| *x != id);
                    ops.push(Op::Unlink { id });
                }
                4 => {
                    let id = if !statics.is_empty() && rng.pct(70) { *rng.pick(&statics) } else { rng.below(idpool) as u8 };
                    statics.retain(|x| *x != id);
                    ops.push(Op::RemoveStatic { id });
                }
                5 => {
                    let id = if !templates.is_empty() && rng.pct(70) { rng.pick(&templates).0 } else { rng.below(idpool) as u8 };
                    ops.push(Op::RemoveTemplate { id });
                }
                6 => {
                    let k = rng.range(1, 3);
                    let ents = (0..k).map(|_| { let i = rng_idx(&mut rng); gen_ent(&mut rng, i) }).collect();
                    ops.push(Op::Upsert { ents });
                }
                7 => {
                    ops.push(Op::Remove { ids: (0..rng.range(1, 2)).map(|_| rng_idx(&mut rng)).collect() });
                }
                8 => ops.push(Op::Auth { req: gen_req(&mut rng) }),
                9 => ops.push(Op::AuthAgain { k: rng.below(16) as u8 }),
                _ => ops.push(Op::Rebuild { seed: hs.next(), perm: hs.next(), route: rng.below(5) as u8 }),
            }
        }
        ops.push(Op::Auth { req: gen_req(&mut rng) });
        if rng.pct(60) {
            ops.push(Op::Rebuild { seed: hs.next(), perm: hs.next(), route: rng.below(5) as u8 });
        }
        Case { hash_seed: hs.next(), ops }
    }
    fn hash_seed(&self, case: &Case) -> u64 {
        case.hash_seed
    }
    fn execute(&self, case: &Case, obs: &mut Obs) -> Option<Violation> {
        run(case, obs)
    }
    fn shrink(&self, case: &Case) -> Vec<Case> {
        let mut out = vec![];
        for ops in list_shrinks(&case.ops) {
            out.push(Case { ops, ..case.clone() });
        }
        for (i, op) in case.ops.iter().enumerate() {
            let mut variants = vec![];
            match op {
                Op::AddStatic { id, pol } | Op::AddTemplate { id, pol } => {
                    let is_t = matches!(op, Op::AddTemplate { .. });
                    let mk = |p: Pol| if is_t { Op::AddTemplate { id: *id, pol: p } } else { Op::AddStatic { id: *id, pol: p } };
                    for k in 0..pol.clauses.len() {
                        let mut p = pol.clone();
                        p.clauses.remove(k);
                        variants.push(mk(p));
                    }
                    if pol.annotated {
                        variants.push(mk(Pol { annotated: false, ..pol.clone() }));
                    }
                    if pol.ac != ActC::Any {
                        variants.push(mk(Pol { ac: ActC::Any, ..pol.clone() }));
                    }
                    if !is_t {
                        if pol.pc != ScopeC::Any {
                            variants.push(mk(Pol { pc: ScopeC::Any, ..pol.clone() }));
                        }
                        if pol.rc != ScopeC::Any {
                            variants.push(mk(Pol { rc: ScopeC::Any, ..pol.clone() }));
                        }
                    }
                }
                Op::Upsert { ents } => {
                    for e in list_shrinks(ents) {
                        if !e.is_empty() {
                            variants.push(Op::Upsert { ents: e });
                        }
                    }
                    for (k, e) in ents.iter().enumerate() {
                        if !e.parents.is_empty() {
                            let mut es = ents.clone();
                            es[k].parents.clear();
                            variants.push(Op::Upsert { ents: es });
                        }
                    }
                }
                Op::Rebuild { seed, perm, route } => {
                    if *route != 0 {
                        variants.push(Op::Rebuild { seed: *seed, perm: *perm, route: 0 });
                    }
                    if *perm != 0 {
                        variants.push(Op::Rebuild { seed: *seed, perm: 0, route: *route });
                    }
                    if *seed != 0 {
                        variants.push(Op::Rebuild { seed: 0, perm: *perm, route: *route });
                    }
                }
                _ => {}
            }
            for v in variants {
                let mut ops = case.ops.clone();
                ops[i] = v;
                out.push(Case { ops, ..case.clone() });
            }
        }
        if case.hash_seed != 0 {
            out.push(Case { hash_seed: 0, ..case.clone() });
        }
        out
    }
    fn rule(&self) -> &'static str {
        "cases = seeded histories (6-42 ops) of policy-set edits (add static/template, link, unlink, remove), store edits (upsert/remove) and authorization calls against one long-lived Authorizer, plus rebuild ops that reconstruct the same logical state on a fresh thread under another hash order with permuted insertion orders and respelled / auto-numbered policy ids; policies are drawn from an atom family (scope forms, when/unless clauses incl. type errors, overflow, missing attributes, missing entities) whose three-valued outcome the model computes; evaluations = responses compared with the model (decision, reason set, error-id set); non-trivial = response over >=2 policies falling in >=2 distinct (effect, outcome) classes; distinct by hash of (class multiset, decision, sizes, preceding response trail)"
    }
    fn real_components(&self) -> Vec<&'static str> {
        vec!["cedar_policy::Authorizer::is_authorized (parser, evaluator, authorizer, PartialResponse -> Response)", "PolicySet::{add, add_template, link, unlink, remove_static, remove_template, from_str}", "Entities::{from_entities, add_entities, upsert_entities, remove_entities}", "Request / Context construction"]
    }
    fn simulated_components(&self) -> Vec<&'static str> {
        vec!["hash-map iteration order (getrandom seam; replicas on fresh threads with other keys)", "call / edit scheduler (seeded op lists)", "reference model: three-valued atom evaluator + decision table"]
    }
    fn assumptions(&self) -> Vec<&'static str> {
        vec![
            "errors are compared as the set of erroring policy ids (with multiplicity one each); error messages and the order of the errors vector are not compared",
            "whether an edit operation succeeds is taken from cedar (C08 decides edit consistency); the model follows successful edits only",
            "the atom family is workload, not a claim about the whole expression language (C02)",
        ]
    }
    fn reach_probes(&self) -> Vec<&'static str> {
        vec!["reach.many_permits_one_forbid", "reach.mixed_classes_response", "reach.erroring_forbid_with_satisfied_permit", "reach.forbid_overrides_permit", "reach.all_policies_error", "reach.reissued_on_unchanged_state"]
    }
}

fn rng_idx(rng: &mut Rng) -> u8 {
    rng.below(ENTS.len()) as u8
}

pub fn warm_up() {
    let mut rng = Rng::new(7);
    let mut src = String::new();
    for _ in 0..40 {
        src.push_str(&gen_pol(&mut rng, false).text());
        src.push('\n');
    }
    let ps = PolicySet::from_str(&src).expect("atom family parses");
    let store = Entities::from_entities((0..ENTS.len() as u8).map(|i| mk_entity(&EntRec { idx: i, parents: vec![], flag: Some(true), n: Some(1) })), None).expect("store");
    let auth = Authorizer::new();
    for _ in 0..10 {
        if let Some(r) = mk_request(&gen_req(&mut rng)) {
            let _ = auth.is_authorized(&r, &ps, &store);
        }
    }
    let _ = Template::parse(None, gen_pol(&mut rng, true).text());
}
