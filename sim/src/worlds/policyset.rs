//! World `policyset` (C08): edit / merge histories on a policy set with frequent failing
//! operations, checked after every step against a name/role model; linking is compared with
//! textual substitution; authorization over the edited set is compared with the model's table.

use crate::core::*;
use crate::rng::{mix, tag, Rng};
use crate::worlds::authz::{gen_ent, gen_pol, gen_req, mk_entity, mk_request, observe, raw_id, uid, ActC, EntRec, Model as EvalModel, Pol, Req, ScopeC, Tri, ENTS};
use cedar_policy::proto::traits::Protobuf;
use cedar_policy::{Authorizer, Effect, Entities, Policy, PolicyId, PolicySet, SlotId, Template};
use serde::{Deserialize, Serialize};
use std::collections::{BTreeMap, BTreeSet, HashMap};

/// id pool: small, and containing the spellings merge's fresh-id search produces
pub const PIDS: [&str; 10] = ["x", "y", "policy0", "policy1", "policy2", "a\\b", "", "policy3", "a\\\\b", "z"];

#[derive(Clone, Debug, Serialize, Deserialize, PartialEq)]
#[serde(tag = "op")]
pub enum PsOp {
    Add { id: u8, pol: Pol },
    AddTemplate { id: u8, pol: Pol },
    Link { tid: u8, id: u8, p: Option<u8>, r: Option<u8> },
    Unlink { id: u8 },
    RemoveStatic { id: u8 },
    RemoveTemplate { id: u8 },
    /// `from_clone`: `other` starts as a clone of the set itself (sharing its template allocations)
    /// and is then edited by `sub`; otherwise it starts empty
    Merge { sub: Vec<PsOp>, rename: bool, #[serde(default)] from_clone: bool },
    /// replace the set by its own JSON (0) or protobuf (1) round trip; the contents must be unchanged
    RoundTrip { via: u8 },
    /// hand the policy object stored under `id` (a static policy or a link) back to `add`, after
    /// detaching it: 0 not at all, 1 the object itself (remove_static / unlink), 2 for a link also
    /// every other link of its template and the template. `add` takes static policies only.
    AddObject { id: u8, detach: u8 },
    /// take the object stored under `from` (static policy, link or template), give it the id `to`
    /// with `new_id` and hand it to `add` / `add_template`: a renamed static policy or template is
    /// a new member with the same body when `to` is free; a renamed link is not a static policy
    AddRenamed { from: u8, to: u8 },
}

#[derive(Clone, Debug, Serialize, Deserialize)]
pub struct Case {
    pub hash_seed: u64,
    pub ents: Vec<EntRec>,
    pub ops: Vec<PsOp>,
    pub probes: Vec<Req>,
    /// how many probe requests are evaluated after each successful op (all of them at the end)
    pub probes_per_step: u8,
}

#[derive(Clone, Debug, PartialEq)]
enum PItem {
    Static(Pol),
    Template(Pol),
    Link(String, Option<u8>, Option<u8>),
}

type PModel = BTreeMap<String, PItem>;

fn pid(i: u8) -> String {
    PIDS[i as usize % PIDS.len()].to_string()
}

/// the static policy obtained by writing the bound entity in place of each slot
fn substitute(t: &Pol, p: Option<u8>, r: Option<u8>) -> Option<Pol> {
    let sub = |c: &ScopeC, b: Option<u8>| -> Option<ScopeC> {
        Some(match c {
            ScopeC::EqSlot => ScopeC::Eq(b?),
            ScopeC::InSlot => ScopeC::In(b?),
            ScopeC::IsInSlot(t) => ScopeC::IsIn(t.clone(), b?),
            other => other.clone(),
        })
    };
    Some(Pol { pc: sub(&t.pc, p)?, rc: sub(&t.rc, r)?, ..t.clone() })
}

struct Ctx<'a> {
    case: &'a Case,
    obs: &'a mut Obs,
    em: EvalModel,
    store: Entities,
    auth: Authorizer,
}

impl Ctx<'_> {
    /// expected (allow, reasons, errors) by the model's table
    fn expected(&self, m: &PModel, q: &Req) -> (bool, BTreeSet<String>, BTreeSet<String>) {
        let mut permits = BTreeSet::new();
        let mut forbids = BTreeSet::new();
        let mut errors = BTreeSet::new();
        for (id, it) in m {
            let (pol, sp, sr) = match it {
                PItem::Static(p) => (p, None, None),
                PItem::Template(_) => continue,
                PItem::Link(t, sp, sr) => match m.get(t) {
                    Some(PItem::Template(p)) => (p, *sp, *sr),
                    _ => continue,
                },
            };
            match self.em.eval(pol, sp, sr, q) {
                Tri::Sat => {
                    if pol.permit {
                        permits.insert(id.clone());
                    } else {
                        forbids.insert(id.clone());
                    }
                }
                Tri::Err => {
                    errors.insert(id.clone());
                }
                Tri::Unsat => {}
            }
        }
        if !forbids.is_empty() {
            (false, forbids, errors)
        } else if !permits.is_empty() {
            (true, permits, errors)
        } else {
            (false, BTreeSet::new(), errors)
        }
    }

    fn check_probe(&mut self, ps: &PolicySet, m: &PModel, q: &Req, step: usize) -> Option<Violation> {
        let req = mk_request(q)?;
        let got = observe(&self.auth, &req, ps, &self.store);
        let want = self.expected(m, q);
        self.obs.count("evaluations");
        if got.0 != want.0 || got.1 != want.1 || got.2 != want.2 || got.3 != want.2.len() {
            return Some(Violation::new(
                "authorization_considers_wrong_policies",
                "authorization over the edited set",
                step,
                format!("{:?} reasons {:?} errors {:?} for {q:?}", if want.0 { "Allow" } else { "Deny" }, want.1, want.2),
                format!("{:?} reasons {:?} errors {:?}", if got.0 { "Allow" } else { "Deny" }, got.1, got.2),
            ));
        }
        None
    }

    /// set-level comparison of the policy set with the model
    fn check_set(&mut self, ps: &PolicySet, m: &PModel, step: usize, what: &str) -> Option<Violation> {
        let bad = |kind: &str, exp: String, obsd: String| Some(Violation::new(kind, format!("{what}"), step, exp, obsd));
        let got_p: BTreeSet<String> = ps.policies().map(|p| raw_id(p.id())).collect();
        let want_p: BTreeSet<String> = m.iter().filter(|(_, i)| !matches!(i, PItem::Template(_))).map(|(k, _)| k.clone()).collect();
        self.obs.count("evaluations");
        if got_p != want_p || ps.num_of_policies() != want_p.len() {
            return bad("policy_ids", format!("policies {want_p:?}"), format!("{got_p:?} num_of_policies={}", ps.num_of_policies()));
        }
        let got_t: BTreeSet<String> = ps.templates().map(|t| raw_id(t.id())).collect();
        let want_t: BTreeSet<String> = m.iter().filter(|(_, i)| matches!(i, PItem::Template(_))).map(|(k, _)| k.clone()).collect();
        if got_t != want_t || ps.num_of_templates() != want_t.len() {
            return bad("template_ids", format!("templates {want_t:?}"), format!("{got_t:?} num_of_templates={}", ps.num_of_templates()));
        }
        if ps.is_empty() != m.is_empty() {
            return bad("policy_ids", format!("is_empty = {}", m.is_empty()), format!("{}", ps.is_empty()));
        }
        if let Some(x) = got_p.intersection(&got_t).next() {
            return bad("id_shared", "no id shared between policies and templates".into(), format!("{x:?} is both"));
        }
        for (id, it) in m {
            let pidv = PolicyId::new(id);
            match it {
                PItem::Static(pol) => {
                    let Some(p) = ps.policy(&pidv) else { return bad("policy_ids", format!("policy({id:?}) present"), "None".into()) };
                    if !p.is_static() || p.template_id().is_some() || p.template_links().is_some() {
                        return bad("role", format!("{id:?} is a static policy"), format!("is_static={} template_id={:?}", p.is_static(), p.template_id()));
                    }
                    let want = match Policy::parse(Some(pidv.clone()), pol.text()) {
                        Ok(w) => w,
                        Err(_) => continue,
                    };
                    if p != &want {
                        return bad("content", format!("static {id:?} = {}", pol.text()), format!("{p}"));
                    }
                    if ps.template(&pidv).is_some() {
                        return bad("id_shared", format!("{id:?} is only a policy"), "template() also returns it".into());
                    }
                }
                PItem::Template(pol) => {
                    let Some(t) = ps.template(&pidv) else { return bad("template_ids", format!("template({id:?}) present"), "None".into()) };
                    let want = match Template::parse(Some(pidv.clone()), pol.text()) {
                        Ok(w) => w,
                        Err(_) => continue,
                    };
                    if t != &want {
                        return bad("content", format!("template {id:?} = {}", pol.text()), format!("{t}"));
                    }
                    if ps.policy(&pidv).is_some() {
                        return bad("id_shared", format!("{id:?} is only a template"), "policy() also returns it".into());
                    }
                    let got_l: BTreeSet<String> = match ps.get_linked_policies(pidv.clone()) {
                        Ok(it) => it.map(raw_id).collect(),
                        Err(e) => return bad("links_of_template", format!("links of {id:?} listed"), e.to_string()),
                    };
                    let want_l: BTreeSet<String> = m.iter().filter(|(_, i)| matches!(i, PItem::Link(t, _, _) if t == id)).map(|(k, _)| k.clone()).collect();
                    if got_l != want_l {
                        return bad("links_of_template", format!("links of {id:?} = {want_l:?}"), format!("{got_l:?}"));
                    }
                }
                PItem::Link(t, bp, br) => {
                    let Some(p) = ps.policy(&pidv) else { return bad("policy_ids", format!("link {id:?} present"), "None".into()) };
                    if p.is_static() {
                        return bad("role", format!("{id:?} is a template-linked policy"), "is_static".into());
                    }
                    let tid = p.template_id().map(raw_id);
                    if tid.as_ref() != Some(t) {
                        return bad("link_template", format!("link {id:?} -> template {t:?}"), format!("{tid:?}"));
                    }
                    if !matches!(m.get(t), Some(PItem::Template(_))) || ps.template(&PolicyId::new(t)).is_none() {
                        return bad("link_without_template", format!("template {t:?} of link {id:?} exists"), "missing".into());
                    }
                    let mut want = HashMap::new();
                    if let Some(b) = bp {
                        want.insert(SlotId::principal(), uid(*b));
                    }
                    if let Some(b) = br {
                        want.insert(SlotId::resource(), uid(*b));
                    }
                    if p.template_links().as_ref() != Some(&want) {
                        return bad("link_binding", format!("link {id:?} binds {want:?}"), format!("{:?}", p.template_links()));
                    }
                    // a link's effect and annotations are those of its template
                    if let Some(PItem::Template(tp)) = m.get(t) {
                        let eff = if tp.permit { Effect::Permit } else { Effect::Forbid };
                        if p.effect() != eff {
                            return bad("link_effect", format!("{eff:?}"), format!("{:?}", p.effect()));
                        }
                        let ann: BTreeMap<String, String> = p.annotations().map(|(k, v)| (k.to_string(), v.to_string())).collect();
                        let want_ann: BTreeMap<String, String> = if tp.annotated { [("note".to_string(), "x".to_string())].into_iter().collect() } else { BTreeMap::new() };
                        if ann != want_ann {
                            return bad("link_annotations", format!("{want_ann:?}"), format!("{ann:?}"));
                        }
                    }
                }
            }
        }
        None
    }

    /// linking = substitution, on every probe request
    fn check_substitution(&mut self, t: &Pol, p: Option<u8>, r: Option<u8>, step: usize) -> Option<Violation> {
        let sub = substitute(t, p, r)?;
        let id = PolicyId::new("L");
        let stat = Policy::parse(Some(id.clone()), sub.text()).ok()?;
        let mut a = PolicySet::new();
        a.add(stat).ok()?;
        let mut b = PolicySet::new();
        b.add_template(Template::parse(Some(PolicyId::new("T")), t.text()).ok()?).ok()?;
        let mut vals = HashMap::new();
        if let Some(e) = p {
            vals.insert(SlotId::principal(), uid(e));
        }
        if let Some(e) = r {
            vals.insert(SlotId::resource(), uid(e));
        }
        b.link(PolicyId::new("T"), id, vals).ok()?;
        for q in self.case.probes.clone() {
            let req = mk_request(&q)?;
            let ga = observe(&self.auth, &req, &a, &self.store);
            let gb = observe(&self.auth, &req, &b, &self.store);
            self.obs.count("evaluations");
            self.obs.count("substitution_comparisons");
            if ga != gb {
                return Some(Violation::new("link_not_substitution", "link vs substituted static", step, format!("{ga:?} (static {})", sub.text()), format!("{gb:?} (link of {})", t.text())));
            }
        }
        None
    }
}

/// Apply one non-merge op to (ps, model); returns Err(violation) or Ok(success?)
fn apply(cx: &mut Ctx<'_>, ps: &mut PolicySet, m: &mut PModel, op: &PsOp, step: usize, main: bool) -> Result<bool, Violation> {
    let (res, expect_ok, mut m2, name): (Result<(), String>, bool, PModel, &str);
    m2 = m.clone();
    match op {
        PsOp::Add { id, pol } => {
            name = "add";
            let p = Policy::parse(Some(PolicyId::new(pid(*id))), pol.text()).map_err(|e| Violation::new("harness_policy_text", "static text does not parse", step, "parses", format!("{e}")))?;
            expect_ok = !m.contains_key(&pid(*id));
            m2.insert(pid(*id), PItem::Static(pol.clone()));
            res = ps.add(p).map_err(|e| e.to_string());
        }
        PsOp::AddTemplate { id, pol } => {
            name = "add_template";
            let t = Template::parse(Some(PolicyId::new(pid(*id))), pol.text()).map_err(|e| Violation::new("harness_policy_text", "template text does not parse", step, "parses", format!("{e}")))?;
            expect_ok = !m.contains_key(&pid(*id));
            m2.insert(pid(*id), PItem::Template(pol.clone()));
            res = ps.add_template(t).map_err(|e| e.to_string());
        }
        PsOp::Link { tid, id, p, r } => {
            name = "link";
            let mut vals = HashMap::new();
            if let Some(e) = p {
                vals.insert(SlotId::principal(), uid(*e));
            }
            if let Some(e) = r {
                vals.insert(SlotId::resource(), uid(*e));
            }
            expect_ok = matches!(m.get(&pid(*tid)), Some(PItem::Template(t)) if t.slots() == (p.is_some(), r.is_some())) && !m.contains_key(&pid(*id));
            m2.insert(pid(*id), PItem::Link(pid(*tid), *p, *r));
            res = ps.link(PolicyId::new(pid(*tid)), PolicyId::new(pid(*id)), vals).map_err(|e| e.to_string());
            if main {
                match m.get(&pid(*tid)) {
                    Some(PItem::Template(t)) if t.slots() != (p.is_some(), r.is_some()) => cx.obs.count("reach.link_wrong_slots"),
                    Some(PItem::Static(_)) => cx.obs.count("reach.link_to_static_id"),
                    Some(PItem::Link(..)) => cx.obs.count("reach.link_to_link_id"),
                    None => cx.obs.count("reach.link_to_nothing"),
                    _ => {}
                }
            }
        }
        PsOp::Unlink { id } => {
            name = "unlink";
            expect_ok = matches!(m.get(&pid(*id)), Some(PItem::Link(..)));
            m2.remove(&pid(*id));
            res = ps.unlink(PolicyId::new(pid(*id))).map(|_| ()).map_err(|e| e.to_string());
        }
        PsOp::RemoveStatic { id } => {
            name = "remove_static";
            expect_ok = matches!(m.get(&pid(*id)), Some(PItem::Static(_)));
            m2.remove(&pid(*id));
            res = ps.remove_static(PolicyId::new(pid(*id))).map(|_| ()).map_err(|e| e.to_string());
        }
        PsOp::RemoveTemplate { id } => {
            name = "remove_template";
            let live = m.values().any(|i| matches!(i, PItem::Link(t, _, _) if *t == pid(*id)));
            expect_ok = matches!(m.get(&pid(*id)), Some(PItem::Template(_))) && !live;
            if main && live {
                cx.obs.count("reach.remove_template_with_live_links");
            }
            m2.remove(&pid(*id));
            res = ps.remove_template(PolicyId::new(pid(*id))).map(|_| ()).map_err(|e| e.to_string());
        }
        PsOp::AddObject { id, detach } => {
            name = "add(policy object taken from the set)";
            let Some(obj) = ps.policy(&PolicyId::new(pid(*id))).cloned() else { return Ok(false) };
            let was = m.get(&pid(*id)).cloned();
            match (&was, detach % 3) {
                (Some(PItem::Static(_)), 1 | 2) => {
                    apply(cx, ps, m, &PsOp::RemoveStatic { id: *id }, step, false)?;
                }
                (Some(PItem::Link(..)), 1) => {
                    apply(cx, ps, m, &PsOp::Unlink { id: *id }, step, false)?;
                }
                (Some(PItem::Link(t, _, _)), 2) => {
                    let siblings: Vec<u8> = (0..=255u8).filter(|k| matches!(m.get(&pid(*k)), Some(PItem::Link(t2, _, _)) if t2 == t)).collect();
                    for k in siblings {
                        apply(cx, ps, m, &PsOp::Unlink { id: k }, step, false)?;
                    }
                    if let Some(tk) = (0..=255u8).find(|k| &pid(*k) == t) {
                        apply(cx, ps, m, &PsOp::RemoveTemplate { id: tk }, step, false)?;
                    }
                    if main {
                        cx.obs.count("reach.add_link_object_without_its_template");
                    }
                }
                _ => {}
            }
            m2 = m.clone();
            expect_ok = obj.is_static() && !m.contains_key(&pid(*id));
            if let (true, Some(it)) = (expect_ok, was) {
                m2.insert(pid(*id), it);
            }
            res = ps.add(obj).map_err(|e| e.to_string());
        }
        PsOp::AddRenamed { from, to } => {
            name = "add(new_id(object taken from the set))";
            let to_id = PolicyId::new(pid(*to));
            m2 = m.clone();
            match m.get(&pid(*from)).cloned() {
                Some(PItem::Template(body)) => {
                    let Some(t) = ps.template(&PolicyId::new(pid(*from))).cloned() else { return Ok(false) };
                    expect_ok = !m.contains_key(&pid(*to));
                    if expect_ok {
                        m2.insert(pid(*to), PItem::Template(body));
                    }
                    if main {
                        cx.obs.count("reach.add_renamed_template");
                    }
                    res = ps.add_template(t.new_id(to_id)).map_err(|e| e.to_string());
                }
                Some(it) => {
                    let Some(obj) = ps.policy(&PolicyId::new(pid(*from))).cloned() else { return Ok(false) };
                    expect_ok = matches!(it, PItem::Static(_)) && !m.contains_key(&pid(*to));
                    if expect_ok {
                        m2.insert(pid(*to), it);
                    }
                    if main {
                        cx.obs.count("reach.add_renamed_policy");
                    }
                    res = ps.add(obj.new_id(to_id)).map_err(|e| e.to_string());
                }
                None => return Ok(false),
            }
        }
        PsOp::Merge { .. } | PsOp::RoundTrip { .. } => return Ok(false),
    }
    match (res.is_ok(), expect_ok) {
        (true, true) => {
            *m = m2;
            Ok(true)
        }
        (false, false) => Ok(false),
        (a, b) => Err(Violation::new(
            "op_outcome",
            format!("{name}"),
            step,
            format!("{name} {}", if b { "succeeds" } else { "fails" }),
            format!("{} {:?}", if a { "succeeded" } else { "failed:" }, res.err().unwrap_or_default()),
        )),
    }
}

fn model_fp(m: &PModel) -> u64 {
    let mut h = 7u64;
    for (k, v) in m {
        h = mix(&[h, tag(k), match v {
            PItem::Static(p) => tag(&p.text()),
            PItem::Template(p) => tag(&p.text()) ^ 1,
            PItem::Link(t, a, b) => mix(&[tag(t), a.map(|x| x as u64 + 1).unwrap_or(0), b.map(|x| x as u64 + 1).unwrap_or(0)]),
        }]);
    }
    h
}

fn run(case: &Case, obs: &mut Obs) -> Option<Violation> {
    let mut em = EvalModel::default();
    for e in &case.ents {
        em.ents.insert(e.idx, e.clone());
    }
    let store = match Entities::from_entities(em.ents.values().map(mk_entity), None) {
        Ok(s) => s,
        Err(_) => return None,
    };
    let mut cx = Ctx { case, obs, em, store, auth: Authorizer::new() };
    let mut ps = PolicySet::new();
    let mut m = PModel::new();
    let (mut n_link_ok, mut n_failed, mut n_removed) = (0, 0, 0);
    let mut trail = 0u64;
    let mut prng = Rng::new(case.hash_seed ^ 0x9090);
    let nops = case.ops.len();
    for (step, op) in case.ops.iter().enumerate() {
        cx.obs.count("logical_steps");
        let before = m.clone();
        let ps_before = ps.clone();
        if let PsOp::RoundTrip { via } = op {
            let rt: Result<PolicySet, String> = if *via % 2 == 0 {
                ps.clone().to_json().map_err(|e| e.to_string()).and_then(|j| PolicySet::from_json_value(j).map_err(|e| e.to_string()))
            } else {
                ps.encode().map_err(|e| e.to_string()).and_then(|b| PolicySet::decode(&b[..]).map_err(|e| e.to_string()))
            };
            cx.obs.count("roundtrips");
            match rt {
                Ok(p2) => {
                    cx.obs.event(format!("{step} roundtrip{via} ok"));
                    if let Some(mut v) = cx.check_set(&p2, &m, step, if *via % 2 == 0 { "after a JSON round trip" } else { "after a protobuf round trip" }) {
                        v.kind = format!("roundtrip_{}", v.kind);
                        return Some(v);
                    }
                    ps = p2;
                }
                Err(e) => return Some(Violation::new("roundtrip_failed", if *via % 2 == 0 { "to_json/from_json" } else { "encode/decode" }, step, "the set survives its own round trip", e)),
            }
            continue;
        }
        let ok = if let PsOp::Merge { sub, rename, from_clone } = op {
            // `other` is produced by its own short history (possibly starting from a clone of the set)
            let (mut other, mut om) = if *from_clone { (ps.clone(), m.clone()) } else { (PolicySet::new(), PModel::new()) };
            if *from_clone {
                cx.obs.count("reach.merge_with_edited_clone");
            }
            for (k, sop) in sub.iter().enumerate() {
                if let Err(v) = apply(&mut cx, &mut other, &mut om, sop, step * 100 + k, false) {
                    return Some(v);
                }
            }
            // conflicts: id in both with a different role or unequal content
            let mut conflicts = BTreeSet::new();
            for (oid, oit) in &om {
                if let Some(sit) = m.get(oid) {
                    let equal = match (sit, oit) {
                        (PItem::Link(st, sp, sr), PItem::Link(ot, op_, or)) => st == ot && sp == op_ && sr == or && m.get(st) == om.get(ot),
                        (a, b) => a == b,
                    };
                    if !equal {
                        conflicts.insert(oid.clone());
                    }
                }
            }
            let role_swap = om.iter().any(|(k, v)| m.get(k).is_some_and(|s| std::mem::discriminant(s) != std::mem::discriminant(v)));
            if role_swap {
                cx.obs.count("reach.merge_role_swap");
            }
            match ps.merge(&other, *rename) {
                Err(e) => {
                    cx.obs.event(format!("{step} merge err"));
                    if conflicts.is_empty() || *rename {
                        return Some(Violation::new("op_outcome", "merge", step, format!("merge(rename={rename}) succeeds (conflicts {conflicts:?})"), format!("failed: {e}")));
                    }
                    cx.obs.count("reach.merge_conflict_rejected");
                    false
                }
                Ok(ren) => {
                    let ren: BTreeMap<String, String> = ren.iter().map(|(a, b)| (raw_id(a), raw_id(b))).collect();
                    cx.obs.event(format!("{step} merge ok renaming {ren:?}"));
                    if !*rename && !conflicts.is_empty() {
                        return Some(Violation::new("op_outcome", "merge", step, format!("merge(rename=false) fails: conflicts {conflicts:?}"), "succeeded".to_string()));
                    }
                    let keys: BTreeSet<String> = ren.keys().cloned().collect();
                    if !conflicts.is_subset(&keys) {
                        return Some(Violation::new("merge_renaming", "merge renaming misses a conflicting id", step, format!("renaming covers {conflicts:?}"), format!("{ren:?}")));
                    }
                    if let Some(k) = keys.iter().find(|k| !om.contains_key(*k)) {
                        return Some(Violation::new("merge_renaming", "merge renames an id that is not in other", step, "only ids of `other` are renamed", format!("{k:?} in {ren:?}")));
                    }
                    let vals: BTreeSet<&String> = ren.values().collect();
                    if vals.len() != ren.len() {
                        return Some(Violation::new("merge_renaming", "merge renaming not injective", step, "injective renaming", format!("{ren:?}")));
                    }
                    for n in ren.values() {
                        if m.contains_key(n) || om.contains_key(n) {
                            return Some(Violation::new("merge_renaming", "renamed id not fresh", step, "fresh ids", format!("{n:?} in {ren:?}")));
                        }
                    }
                    if ren.len() >= 2 {
                        cx.obs.count("reach.merge_two_or_more_renamed");
                    }
                    if ren.keys().any(|k| matches!(om.get(k), Some(PItem::Template(_))) && om.values().any(|i| matches!(i, PItem::Link(t, _, _) if t == k))) {
                        cx.obs.count("reach.merge_renamed_template_with_links");
                    }
                    for (oid, oit) in &om {
                        let nid = ren.get(oid).unwrap_or(oid).clone();
                        let nit = match oit {
                            PItem::Link(t, a, b) => PItem::Link(ren.get(t).unwrap_or(t).clone(), *a, *b),
                            x => x.clone(),
                        };
                        m.insert(nid, nit);
                    }
                    true
                }
            }
        } else {
            match apply(&mut cx, &mut ps, &mut m, op, step, true) {
                Ok(b) => {
                    cx.obs.event(format!("{step} op {}", b));
                    b
                }
                Err(v) => return Some(v),
            }
        };
        if ok {
            if let PsOp::Link { tid, p, r, .. } = op {
                n_link_ok += 1;
                if let Some(PItem::Template(t)) = m.get(&pid(*tid)).cloned() {
                    if let Some(v) = cx.check_substitution(&t, *p, *r, step) {
                        return Some(v);
                    }
                }
            }
            if m.len() < before.len() {
                n_removed += 1;
            }
        } else {
            n_failed += 1;
            cx.obs.count("designed_failures_observed");
            // a failed operation changes nothing (set level)
            // (AddObject first detaches the object through ordinary operations, which do change the model)
            if m != before && !matches!(op, PsOp::AddObject { .. }) {
                return Some(Violation::new("harness_model", "model changed on failure", step, "unchanged", "changed"));
            }
            // .. and that includes what `==` and iteration over the set can see
            if !matches!(op, PsOp::AddObject { .. }) {
                let order = |x: &PolicySet| -> (Vec<String>, Vec<String>) { (x.policies().map(|p| AsRef::<str>::as_ref(p.id()).to_string()).collect(), x.templates().map(|t| AsRef::<str>::as_ref(t.id()).to_string()).collect()) };
                if ps != ps_before {
                    return Some(Violation::new("failed_op_changed_set", "set != its clone taken before the failed operation", step, "a failed operation changes nothing", format!("{:?} -> {:?}", order(&ps_before), order(&ps))));
                }
                if order(&ps) != order(&ps_before) {
                    return Some(Violation::new("failed_op_changed_order", "iteration order differs after the failed operation", step, format!("{:?}", order(&ps_before)), format!("{:?}", order(&ps))));
                }
            }
        }
        let what = if ok { "after a successful op" } else { "after a failed op (must be unchanged)" };
        if let Some(v) = cx.check_set(&ps, &m, step, what) {
            return Some(v);
        }
        let last = step + 1 == nops;
        let k = if last { case.probes.len() } else { (case.probes_per_step as usize).min(case.probes.len()) };
        let start = if last || case.probes.is_empty() { 0 } else { prng.below(case.probes.len()) };
        for j in 0..k {
            let q = case.probes[(start + j) % case.probes.len()].clone();
            if let Some(v) = cx.check_probe(&ps, &m, &q, step) {
                return Some(v);
            }
        }
        trail = mix(&[trail, model_fp(&m)]);
        cx.obs.mark("model_states", model_fp(&m));
    }
    if n_link_ok >= 1 && n_failed >= 1 && n_removed >= 1 {
        cx.obs.mark("nontrivial", trail);
    }
    cx.obs.mark("schedules", mix(&[trail, case.hash_seed]));
    None
}

fn gen_ops(rng: &mut Rng, n: usize, allow_merge: bool, idpool: usize) -> Vec<PsOp> {
    let mut ops = vec![];
    // rough bookkeeping, only to keep a good share of the operations meaningful
    let mut statics: Vec<u8> = vec![];
    let mut links: Vec<u8> = vec![];
    let mut templates: Vec<(u8, (bool, bool))> = vec![];
    for _ in 0..n {
        let used = |id: u8, st: &Vec<u8>, li: &Vec<u8>, te: &Vec<(u8, (bool, bool))>| st.contains(&id) || li.contains(&id) || te.iter().any(|t| t.0 == id);
        let mut id = rng.below(idpool) as u8;
        if rng.pct(55) {
            // prefer an unused id
            for _ in 0..4 {
                if !used(id, &statics, &links, &templates) {
                    break;
                }
                id = rng.below(idpool) as u8;
            }
        }
        let w: &[u32] = if allow_merge { &[6, 4, 9, 3, 3, 3, 3, 1, 1, 1] } else { &[6, 4, 6, 1, 1, 1, 0, 0, 0, 0] };
        match rng.weighted(w) {
            0 => {
                if !used(id, &statics, &links, &templates) {
                    statics.push(id);
                }
                ops.push(PsOp::Add { id, pol: gen_pol(rng, false) })
            }
            1 => {
                let pol = gen_pol(rng, true);
                if !used(id, &statics, &links, &templates) {
                    templates.push((id, pol.slots()));
                }
                ops.push(PsOp::AddTemplate { id, pol });
            }
            2 => {
                let e = |rng: &mut Rng| Some(rng.below(8) as u8);
                if !templates.is_empty() && rng.pct(85) {
                    let (tid, (sp, sr)) = *rng.pick(&templates);
                    match rng.below(12) {
                        0 => ops.push(PsOp::Link { tid, id, p: None, r: None }),     // missing
                        1 => ops.push(PsOp::Link { tid, id, p: e(rng), r: e(rng) }), // possibly an extra slot
                        _ => {
                            if !used(id, &statics, &links, &templates) {
                                links.push(id);
                            }
                            ops.push(PsOp::Link { tid, id, p: if sp { e(rng) } else { None }, r: if sr { e(rng) } else { None } }) // exact
                        }
                    }
                } else {
                    ops.push(PsOp::Link { tid: rng.below(idpool) as u8, id, p: e(rng), r: if rng.pct(50) { e(rng) } else { None } });
                }
            }
            3 => {
                let id = if !links.is_empty() && rng.pct(70) { *rng.pick(&links) } else { id };
                links.retain(|x| *x != id);
                ops.push(PsOp::Unlink { id })
            }
            4 => {
                let id = if !statics.is_empty() && rng.pct(70) { *rng.pick(&statics) } else { id };
                statics.retain(|x| *x != id);
                ops.push(PsOp::RemoveStatic { id })
            }
            5 => {
                let id = if !templates.is_empty() && rng.pct(70) { rng.pick(&templates).0 } else { id };
                ops.push(PsOp::RemoveTemplate { id })
            }
            6 => {
                let k = rng.range(1, 6);
                let from_clone = rng.pct(30);
                // an edited clone: unlink / relink / remove what the set itself holds
                let sub = if from_clone {
                    let mut sub = vec![];
                    for _ in 0..rng.range(1, 4) {
                        let e = |rng: &mut Rng| Some(rng.below(8) as u8);
                        match rng.below(6) {
                            0 | 1 if !links.is_empty() => {
                                // bind an existing link id again, to the same or another template, with other values
                                let l = *rng.pick(&links);
                                sub.push(PsOp::Unlink { id: l });
                                if !templates.is_empty() {
                                    let (tid, (sp, sr)) = *rng.pick(&templates);
                                    sub.push(PsOp::Link { tid, id: l, p: if sp { e(rng) } else { None }, r: if sr { e(rng) } else { None } });
                                }
                            }
                            2 if !statics.is_empty() => {
                                let st = *rng.pick(&statics);
                                sub.push(PsOp::RemoveStatic { id: st });
                                sub.push(PsOp::Add { id: st, pol: gen_pol(rng, false) });
                            }
                            3 if !statics.is_empty() => sub.push(PsOp::RemoveStatic { id: *rng.pick(&statics) }),
                            _ => sub.extend(gen_ops(rng, 1, false, idpool)),
                        }
                    }
                    sub
                } else {
                    gen_ops(rng, k, false, idpool)
                };
                ops.push(PsOp::Merge { sub, rename: rng.pct(60), from_clone });
            }
            7 => ops.push(PsOp::RoundTrip { via: rng.below(2) as u8 }),
            9 => {
                let from = if !templates.is_empty() && rng.pct(35) { rng.pick(&templates).0 } else if !statics.is_empty() && rng.pct(75) { *rng.pick(&statics) } else if !links.is_empty() && rng.pct(70) { *rng.pick(&links) } else { rng.below(idpool) as u8 };
                if !used(id, &statics, &links, &templates) {
                    if let Some(t) = templates.iter().find(|t| t.0 == from).copied() {
                        templates.push((id, t.1));
                    } else if statics.contains(&from) {
                        statics.push(id);
                    }
                }
                ops.push(PsOp::AddRenamed { from, to: id })
            }
            _ => {
                let id = if !links.is_empty() && rng.pct(60) { *rng.pick(&links) } else if !statics.is_empty() && rng.pct(70) { *rng.pick(&statics) } else { id };
                let detach = rng.below(3) as u8;
                if detach == 2 {
                    links.retain(|x| *x != id);
                }
                ops.push(PsOp::AddObject { id, detach })
            }
        }
    }
    ops
}

pub struct PolicySetWorld;

impl World for PolicySetWorld {
    type Case = Case;
    fn property(&self) -> &'static str {
        "C08"
    }
    fn name(&self) -> &'static str {
        "policyset"
    }
    fn runs(&self, tier: Tier) -> u64 {
        match tier {
            Tier::Quick => 40_000,
            Tier::Thorough => 3_000_000,
        }
    }
    fn generate(&self, seed: u64, _tier: Tier) -> Case {
        let mut rng = Rng::sub(seed, "workload");
        let mut hs = Rng::sub(seed, "hashkeys");
        let mut ents = vec![];
        for i in 0..ENTS.len() as u8 {
            if rng.pct(70) {
                ents.push(gen_ent(&mut rng, i));
            }
        }
        let idpool = rng.range(3, PIDS.len());
        let n = rng.range(4, 25);
        let ops = gen_ops(&mut rng, n, true, idpool);
        let probes = (0..rng.range(6, 14)).map(|_| gen_req(&mut rng)).collect();
        Case { hash_seed: hs.next(), ents, ops, probes, probes_per_step: rng.range(0, 3) as u8 }
    }
    fn hash_seed(&self, case: &Case) -> u64 {
        case.hash_seed
    }
    fn execute(&self, case: &Case, obs: &mut Obs) -> Option<Violation> {
        run(case, obs)
    }
    fn shrink(&self, case: &Case) -> Vec<Case> {
        let mut out = vec![];
        for ops in list_shrinks(&case.ops) {
            out.push(Case { ops, ..case.clone() });
        }
        for (i, op) in case.ops.iter().enumerate() {
            let mut variants = vec![];
            match op {
                PsOp::Merge { sub, rename, from_clone } => {
                    for s in list_shrinks(sub) {
                        variants.push(PsOp::Merge { sub: s, rename: *rename, from_clone: *from_clone });
                    }
                    if *from_clone {
                        variants.push(PsOp::Merge { sub: sub.clone(), rename: *rename, from_clone: false });
                    }
                }
                PsOp::Add { id, pol } | PsOp::AddTemplate { id, pol } => {
                    let is_t = matches!(op, PsOp::AddTemplate { .. });
                    let mk = |p: Pol| if is_t { PsOp::AddTemplate { id: *id, pol: p } } else { PsOp::Add { id: *id, pol: p } };
                    for k in 0..pol.clauses.len() {
                        let mut p = pol.clone();
                        p.clauses.remove(k);
                        variants.push(mk(p));
                    }
                    if pol.ac != ActC::Any {
                        variants.push(mk(Pol { ac: ActC::Any, ..pol.clone() }));
                    }
                    if pol.annotated {
                        variants.push(mk(Pol { annotated: false, ..pol.clone() }));
                    }
                }
                _ => {}
            }
            for v in variants {
                let mut ops = case.ops.clone();
                ops[i] = v;
                out.push(Case { ops, ..case.clone() });
            }
        }
        for p in list_shrinks(&case.probes) {
            if !p.is_empty() {
                out.push(Case { probes: p, ..case.clone() });
            }
        }
        for e in list_shrinks(&case.ents) {
            out.push(Case { ents: e, ..case.clone() });
        }
        if case.hash_seed != 0 {
            out.push(Case { hash_seed: 0, ..case.clone() });
        }
        out
    }
    fn rule(&self) -> &'static str {
        "cases = seeded histories (4-25 ops) of add / add_template / link (exact, missing, extra, wrong-target bindings) / unlink / remove_static / remove_template / merge(other built by its own sub-history, with and without renaming) / JSON and protobuf round trips of the whole set over a pool of 3-8 ids incl. the spellings merge's fresh-id search produces; about half of the generated ops are designed to fail; evaluations = set-level comparisons with the name/role model, probe authorizations compared with the model's table, and link-vs-substituted-static response comparisons; non-trivial = history with >=1 successful link, >=1 failed op and >=1 op that removed something; distinct by fingerprint of the sequence of model states"
    }
    fn real_components(&self) -> Vec<&'static str> {
        vec!["cedar_policy::PolicySet::{add, add_template, link, unlink, remove_static, remove_template, merge, policies, templates, policy, template, get_linked_policies, num_of_*, is_empty}", "Policy::{template_id, template_links, is_static, effect, annotations}", "Authorizer::is_authorized on the edited set", "Policy::parse / Template::parse"]
    }
    fn simulated_components(&self) -> Vec<&'static str> {
        vec!["operation scheduler with designed-to-fail operations", "hash-map iteration order (getrandom seam; link bindings and renamings travel in HashMaps)", "reference model: id -> Static | Template | Link(template, binding); substitution oracle; atom evaluator"]
    }
    fn assumptions(&self) -> Vec<&'static str> {
        vec![
            "'a failed operation changes nothing' is judged at set level (ids, roles, bodies, bindings, link maps), not iteration order",
            "merge may rename more ids of `other` than strictly necessary; it must rename every conflicting id, only ids of `other`, injectively, to fresh ids",
            "two links conflict unless template id, template content and binding all agree",
        ]
    }
    fn reach_probes(&self) -> Vec<&'static str> {
        vec!["reach.merge_two_or_more_renamed", "reach.merge_renamed_template_with_links", "reach.merge_conflict_rejected", "reach.merge_role_swap", "reach.remove_template_with_live_links", "reach.link_wrong_slots", "reach.link_to_static_id", "reach.link_to_link_id", "reach.link_to_nothing", "reach.add_link_object_without_its_template", "reach.add_renamed_policy", "reach.add_renamed_template", "reach.merge_with_edited_clone"]
    }
}

pub fn warm_up() {}
