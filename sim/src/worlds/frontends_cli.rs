//! CLI part of world `frontends` (C19): the real `cedar` binary as a subprocess over a simulated
//! disk. Documents are written to a per-op directory, a fault plan damages them between "write"
//! and "read" (absent, truncated, bit-flipped, swapped, emptied, garbage appended), and the CLI's
//! exit status and printed decision must be what the Rust API reports *for those bytes*.

use crate::core::Violation;
use crate::worlds::frontends::{JobResult, PsDoc, ReqDoc};
use cedar_policy_formatter::{policies_str_to_pretty, Config};
use cedar_policy::{Authorizer, Context, Decision, Entities, EntityUid, PolicyId, PolicySet, Request, Schema, SchemaFragment, SlotId, ValidationMode, Validator};
use serde::{Deserialize, Serialize};
use serde_json::{json, Value};
use std::collections::{BTreeMap, BTreeSet, HashMap};
use std::str::FromStr;
use std::sync::atomic::{AtomicU64, Ordering};

#[derive(Clone, Debug, Serialize, Deserialize, PartialEq)]
pub struct FileFault {
    /// 0 policies, 1 links, 2 entities, 3 schema, 4 context, 5 request-json
    pub file: u8,
    /// 1 absent, 2 truncate@arg, 3 flip bit arg, 4 replaced by another file's bytes (arg picks), 5 emptied, 6 garbage appended
    pub kind: u8,
    pub arg: u32,
}

pub const FAULT_NAMES: [&str; 7] = ["none", "file_absent", "torn_write_truncate", "bit_flip", "swapped_with_other_document", "emptied", "garbage_appended"];

#[derive(Clone, Debug, Serialize, Deserialize, PartialEq)]
pub struct CliOp {
    /// 0 authorize, 1 validate, 2 translate-policy (cedar-to-json, or json-to-cedar when policy_json), 3 translate-schema cedar-to-json, 4 translate-schema json-to-cedar, 5 check-parse, 6 format
    pub kind: u8,
    pub ps: u8,
    pub store: u8,
    /// (schema index, render 0 cedar / 1 json)
    pub schema: Option<(u8, u8)>,
    pub req: ReqDoc,
    pub verbose: bool,
    pub request_validation: bool,
    /// give the request as a `--request-json` file instead of flags + `--context`
    #[serde(default)]
    pub request_json: bool,
    /// give the policies as a JSON policy set (`--policy-format json`)
    #[serde(default)]
    pub policy_json: bool,
    /// validate: `--deny-warnings`, `--level N`
    #[serde(default)]
    pub deny_warnings: bool,
    #[serde(default)]
    pub level: Option<u8>,
    /// format (kind 6): line width, indent width, `--check`, and what the stored file looks like:
    /// 0 the formatter's own output, 1 that without its final newline, 2 that plus blank lines at
    /// the end, 3 the unformatted original
    #[serde(default)]
    pub fmt_width: u16,
    #[serde(default)]
    pub fmt_indent: u8,
    #[serde(default)]
    pub fmt_check: bool,
    #[serde(default)]
    pub fmt_tail: u8,
    /// authorize (kind 0) only: first run `cedar link`, which reads the policies and the links
    /// file as stored and appends to the links file; the authorization then reads what it left
    #[serde(default)]
    pub link_first: Option<LinkStep>,
    /// text form: put `@id("<id>")` before each policy and template, which the CLI turns into
    /// the policy id (otherwise they are policy0, policy1, .. and links can only name those)
    #[serde(default)]
    pub annotate_ids: bool,
    pub faults: Vec<FileFault>,
    pub hash_seed: u64,
}

#[derive(Clone, Debug, Serialize, Deserialize, PartialEq)]
pub struct LinkStep {
    pub tid: String,
    pub new_id: String,
    pub p: Option<String>,
    pub r: Option<String>,
    /// pass `--template-linked` even when the policy set has no links yet (the file is created)
    pub give_links_file: bool,
}

static DIR_NO: AtomicU64 = AtomicU64::new(0);

pub fn cli_available() -> Option<(String, String)> {
    let bin = std::env::var("CEDAR_CLI_BIN").ok()?;
    let shim = std::env::var("CEDAR_SIM_SHIM").unwrap_or_default();
    if std::path::Path::new(&bin).exists() {
        Some((bin, shim))
    } else {
        None
    }
}

fn apply_faults(files: &mut [Option<Vec<u8>>; 6], faults: &[FileFault], fired: &mut Vec<&'static str>) {
    let orig = files.clone();
    for f in faults {
        let i = f.file as usize % 6;
        let Some(cur) = files[i].clone() else { continue };
        let new: Option<Vec<u8>> = match f.kind % 7 {
            1 => None,
            2 => {
                if cur.is_empty() {
                    Some(cur)
                } else {
                    Some(cur[..(f.arg as usize % cur.len())].to_vec())
                }
            }
            3 => {
                if cur.is_empty() {
                    Some(cur)
                } else {
                    let mut c = cur;
                    let bit = f.arg as usize % (c.len() * 8);
                    c[bit / 8] ^= 1 << (bit % 8);
                    Some(c)
                }
            }
            4 => {
                let j = (i + 1 + f.arg as usize % 5) % 6;
                Some(orig[j].clone().unwrap_or_default())
            }
            5 => Some(vec![]),
            6 => {
                let mut c = cur;
                c.extend_from_slice(b"\n}]garbage\xff");
                Some(c)
            }
            _ => Some(cur),
        };
        if f.kind % 7 != 0 {
            fired.push(FAULT_NAMES[f.kind as usize % 7]);
        }
        files[i] = new;
    }
}

#[derive(Deserialize)]
struct LinkRec {
    template_id: String,
    link_id: String,
    args: HashMap<String, String>,
}

/// mirror of the CLI's documented renaming from `@id("..")` annotations
fn rename_from_id(ps: &PolicySet) -> Result<PolicySet, String> {
    let mut out = PolicySet::new();
    for t in ps.templates() {
        let t = match t.annotation("id") {
            None => t.clone(),
            Some(a) => t.new_id(PolicyId::new(a)),
        };
        out.add_template(t).map_err(|e| e.to_string())?;
    }
    for p in ps.policies() {
        let p = match p.annotation("id") {
            None => p.clone(),
            Some(a) => p.new_id(PolicyId::new(a)),
        };
        out.add(p).map_err(|e| e.to_string())?;
    }
    Ok(out)
}

fn api_policies(files: &[Option<Vec<u8>>; 6], with_links: bool, json_format: bool) -> Result<PolicySet, String> {
    let bytes = files[0].as_ref().ok_or("policies file absent")?;
    let text = std::str::from_utf8(bytes).map_err(|e| e.to_string())?;
    let mut ps = if json_format {
        // mirror of the documented JSON route: a policy set document or a single policy / template
        let json: Value = serde_json::from_str(text).map_err(|e| e.to_string())?;
        let has = |keys: &[&str]| keys.iter().any(|k| json.get(k).is_some());
        match (has(&["staticPolicies", "templates", "templateLinks"]), has(&["action", "effect", "principal", "resource", "conditions"])) {
            (false, false) | (true, true) => return Err("cannot determine the kind of JSON policy document".into()),
            (true, _) => PolicySet::from_json_value(json).map_err(|e| e.to_string())?,
            (_, true) => match cedar_policy::Policy::from_json(None, json.clone()) {
                Ok(p) => PolicySet::from_policies([p]).map_err(|e| e.to_string())?,
                Err(_) => {
                    let t = cedar_policy::Template::from_json(None, json).map_err(|e| e.to_string())?;
                    let mut ps = PolicySet::new();
                    ps.add_template(t).map_err(|e| e.to_string())?;
                    ps
                }
            },
        }
    } else {
        let ps = PolicySet::from_str(text).map_err(|e| e.to_string())?;
        rename_from_id(&ps)?
    };
    if with_links {
        let lb = files[1].as_ref().ok_or("links file absent")?;
        if !lb.is_empty() {
            let recs: Vec<LinkRec> = serde_json::from_slice(lb).map_err(|e| e.to_string())?;
            for r in recs {
                let mut vals = HashMap::new();
                for (k, v) in &r.args {
                    let slot = match k.as_str() {
                        "?principal" => SlotId::principal(),
                        "?resource" => SlotId::resource(),
                        _ => return Err("invalid slot id".into()),
                    };
                    vals.insert(slot, EntityUid::from_str(v).map_err(|e| e.to_string())?);
                }
                ps.link(PolicyId::new(&r.template_id), PolicyId::new(&r.link_id), vals).map_err(|e| e.to_string())?;
            }
        }
    }
    Ok(ps)
}

fn api_schema_bytes(files: &[Option<Vec<u8>>; 6], json: bool) -> Result<Schema, String> {
    let bytes = files[3].as_ref().ok_or("schema file absent")?;
    let text = std::str::from_utf8(bytes).map_err(|e| e.to_string())?;
    if json {
        Schema::from_json_str(text).map_err(|e| e.to_string())
    } else {
        Schema::from_cedarschema_str(text).map(|x| x.0).map_err(|e| e.to_string())
    }
}

fn viol(kind: &str, sig: &str, step: usize, exp: String, obs: String) -> Option<Violation> {
    Some(Violation::new(kind, sig, step, exp, obs))
}

#[allow(clippy::too_many_arguments)]
pub fn do_cli(step: usize, op: &CliOp, ps: &PsDoc, store: &[Value], schema_text: Option<(String, bool)>, bin: &str, shim: &str) -> JobResult {
    let mut out = JobResult { violation: None, events: vec![], counts: vec![], registered: None };
    out.counts.push(("evaluations", 1));
    out.counts.push(("cli_spawns", 1));
    // ---- "write": the documents as the user stored them
    let mut policies_text = ps.statics.iter().chain(ps.templates.iter()).map(|(id, t)| if op.annotate_ids { format!("@id({})\n{t}", serde_json::to_string(id).unwrap_or_default()) } else { t.clone() }).collect::<Vec<_>>().join("\n");
    let kind = op.kind % 7;
    let fmt_cfg = Config { line_width: if op.fmt_width == 0 { 80 } else { op.fmt_width as usize }, indent_width: op.fmt_indent as isize };
    if kind == 6 && op.fmt_tail % 4 != 3 {
        // the stored file is what the formatter itself produced, possibly with a damaged tail
        if let Ok(f) = policies_str_to_pretty(&policies_text, &fmt_cfg) {
            policies_text = f;
            match op.fmt_tail % 4 {
                1 => {
                    while policies_text.ends_with('\n') {
                        policies_text.pop();
                    }
                }
                2 => policies_text.push_str("\n\n"),
                _ => {}
            }
        }
    }
    // JSON policy-set form of the same documents (falls back to text when a document has no JSON form)
    let mut pjson = op.policy_json && kind != 6;
    if pjson {
        let mut st = serde_json::Map::new();
        let mut tm = serde_json::Map::new();
        for (id, t) in &ps.statics {
            match cedar_policy::Policy::parse(None, t).ok().and_then(|p| p.to_json().ok()) {
                Some(j) => {
                    st.insert(id.clone(), j);
                }
                None => pjson = false,
            }
        }
        for (id, t) in &ps.templates {
            match cedar_policy::Template::parse(None, t).ok().and_then(|p| p.to_json().ok()) {
                Some(j) => {
                    tm.insert(id.clone(), j);
                }
                None => pjson = false,
            }
        }
        if pjson {
            policies_text = json!({"staticPolicies": st, "templates": tm, "templateLinks": []}).to_string();
        }
    }
    let links_json: Vec<Value> = ps
        .links
        .iter()
        .map(|l| {
            let mut args = serde_json::Map::new();
            if let Some(p) = &l.p {
                args.insert("?principal".into(), json!(p));
            }
            if let Some(r) = &l.r {
                args.insert("?resource".into(), json!(r));
            }
            // the CLI numbers templates policy0.. in file order; statics come first in the text
            json!({"template_id": l.tid, "link_id": l.id, "args": args})
        })
        .collect();
    let mut with_links = !ps.links.is_empty();
    let mut files: [Option<Vec<u8>>; 6] = [
        Some(policies_text.into_bytes()),
        if with_links { Some(serde_json::to_vec(&links_json).unwrap_or_default()) } else { None },
        Some(serde_json::to_vec(&Value::Array(store.to_vec())).unwrap_or_default()),
        schema_text.as_ref().map(|(t, _)| t.clone().into_bytes()),
        if op.request_json { None } else { Some(serde_json::to_vec(&op.req.ctx).unwrap_or_default()) },
        if op.request_json { Some(serde_json::to_vec(&json!({"principal": op.req.p, "action": op.req.a, "resource": op.req.r, "context": op.req.ctx})).unwrap_or_default()) } else { None },
    ];
    let had: Vec<bool> = files.iter().map(|f| f.is_some()).collect();
    // ---- faults between write and read
    let mut fired = vec![];
    apply_faults(&mut files, &op.faults, &mut fired);
    for f in &fired {
        out.counts.push((match *f {
            "file_absent" => "fault.file_absent",
            "torn_write_truncate" => "fault.torn_write_truncate",
            "bit_flip" => "fault.bit_flip",
            "swapped_with_other_document" => "fault.swapped_with_other_document",
            "emptied" => "fault.emptied",
            _ => "fault.garbage_appended",
        }, 1));
    }
    // ---- materialise on the simulated disk
    let dir = format!("{}/work/cli/{}-{}", std::env::var("VERIF_DIR").unwrap_or_else(|_| "/verif".into()), std::process::id(), DIR_NO.fetch_add(1, Ordering::SeqCst));
    let _ = std::fs::remove_dir_all(&dir);
    if std::fs::create_dir_all(&dir).is_err() {
        out.violation = viol("harness_io", "cannot create work dir", step, "dir".into(), dir);
        return out;
    }
    let names = ["policies.cedar", "links.json", "entities.json", "schema.txt", "context.json", "request.json"];
    for (i, f) in files.iter().enumerate() {
        if let Some(b) = f {
            let _ = std::fs::write(format!("{dir}/{}", names[i]), b);
        }
    }
    let path = |i: usize| format!("{dir}/{}", names[i]);
    let json_schema = schema_text.as_ref().is_some_and(|(_, j)| *j);
    // ---- optional first step: `cedar link` (read-modify-write of the links file)
    if let (0, Some(ls)) = (kind, &op.link_first) {
        let use_file = with_links || ls.give_links_file;
        let mut args = serde_json::Map::new();
        if let Some(p) = &ls.p {
            args.insert("?principal".into(), json!(p));
        }
        if let Some(r) = &ls.r {
            args.insert("?resource".into(), json!(r));
        }
        let mut lc = std::process::Command::new(bin);
        lc.env_clear().env("PATH", "/usr/bin:/bin").env("CEDAR_SIM_HASH_SEED", op.hash_seed.to_string()).stdin(std::process::Stdio::null());
        if !shim.is_empty() {
            lc.env("LD_PRELOAD", shim);
        }
        lc.arg("link").arg("--policies").arg(path(0));
        if pjson {
            lc.arg("--policy-format").arg("json");
        }
        if use_file {
            lc.arg("--template-linked").arg(path(1));
        }
        lc.arg("--template-id").arg(&ls.tid).arg("--new-id").arg(&ls.new_id).arg("--arguments").arg(Value::Object(args).to_string());
        out.counts.push(("cli_spawns", 1));
        out.counts.push(("cli_link_steps", 1));
        let lo = match lc.output() {
            Ok(o) => o,
            Err(e) => {
                let _ = std::fs::remove_dir_all(&dir);
                out.violation = viol("harness_io", "cannot run the cedar binary", step, "spawn".into(), e.to_string());
                return out;
            }
        };
        // reference: the API on the bytes as stored (a missing links file counts as no links)
        let want: Result<BTreeSet<String>, String> = (|| {
            let have_file = use_file && files[1].is_some();
            let mut set = api_policies(&files, have_file, pjson)?;
            let mut vals = HashMap::new();
            if let Some(p) = &ls.p {
                vals.insert(SlotId::principal(), EntityUid::from_str(p).map_err(|e| e.to_string())?);
            }
            if let Some(r) = &ls.r {
                vals.insert(SlotId::resource(), EntityUid::from_str(r).map_err(|e| e.to_string())?);
            }
            set.link(PolicyId::new(&ls.tid), PolicyId::new(&ls.new_id), vals).map_err(|e| e.to_string())?;
            Ok(set.policies().map(|p| p.id().to_string()).collect())
        })();
        let lcode = lo.status.code();
        if std::env::var("VERIF_DEBUG_LINK").is_ok() {
            eprintln!("LINKDBG {:?} tid={} new={} p={:?} r={:?}", want.as_ref().err().map(|e| e.chars().take(90).collect::<String>()), ls.tid, ls.new_id, ls.p, ls.r);
        }
        out.events.push(format!("{step} cli link -> exit {lcode:?}"));
        if lcode.is_none() {
            let _ = std::fs::remove_dir_all(&dir);
            out.violation = viol("cli_crashed", "cli link died by signal", step, "an exit status".into(), format!("{:?} stderr: {}", lo.status, String::from_utf8_lossy(&lo.stderr).chars().take(300).collect::<String>()));
            return out;
        }
        let wantc = if want.is_ok() { 0 } else { 1 };
        if lcode != Some(wantc) {
            let _ = std::fs::remove_dir_all(&dir);
            out.violation = viol("cli_exit_status", "cli link", step, format!("exit {wantc} (API link: {want:?})"), format!("exit {lcode:?}, stdout {:?}", String::from_utf8_lossy(&lo.stdout).chars().take(200).collect::<String>()));
            return out;
        }
        // what the command left on the simulated disk is what the next command reads
        if use_file {
            files[1] = std::fs::read(path(1)).ok();
            with_links = true;
            if let Ok(ids) = &want {
                out.counts.push(("reach.cli_link_stored", 1));
                let stored: Result<BTreeSet<String>, String> = api_policies(&files, true, pjson).map(|set| set.policies().map(|p| p.id().to_string()).collect());
                if stored.as_ref() != Ok(ids) {
                    let _ = std::fs::remove_dir_all(&dir);
                    out.violation = viol("cli_link_not_stored", "cli link", step, format!("policies, links file and new link load to the policy ids {ids:?}"), format!("{stored:?}"));
                    return out;
                }
            } else {
                out.counts.push(("reach.cli_link_refused", 1));
            }
        }
    }
    let mut cmd = std::process::Command::new(bin);
    cmd.env_clear().env("PATH", "/usr/bin:/bin").env("CEDAR_SIM_HASH_SEED", op.hash_seed.to_string()).stdin(std::process::Stdio::null());
    if !shim.is_empty() {
        cmd.env("LD_PRELOAD", shim);
    }
    match kind {
        0 => {
            cmd.arg("authorize").arg("--policies").arg(path(0)).arg("--entities").arg(path(2));
            if pjson {
                cmd.arg("--policy-format").arg("json");
            }
            if with_links {
                cmd.arg("--template-linked").arg(path(1));
            }
            if had[3] {
                cmd.arg("--schema").arg(path(3)).arg("--schema-format").arg(if json_schema { "json" } else { "cedar" });
            }
            if op.request_json {
                cmd.arg("--request-json").arg(path(5));
            } else {
                cmd.arg("--principal").arg(&op.req.p).arg("--action").arg(&op.req.a).arg("--resource").arg(&op.req.r).arg("--context").arg(path(4));
            }
            if !op.request_validation {
                cmd.arg("--request-validation").arg("false");
            }
            if op.verbose {
                cmd.arg("--verbose");
            }
        }
        1 => {
            cmd.arg("validate").arg("--policies").arg(path(0)).arg("--schema").arg(path(3)).arg("--schema-format").arg(if json_schema { "json" } else { "cedar" });
            if op.deny_warnings {
                cmd.arg("--deny-warnings");
            }
            if let Some(l) = op.level {
                cmd.arg("--level").arg(l.to_string());
            }
            if pjson {
                cmd.arg("--policy-format").arg("json");
            }
            if with_links {
                cmd.arg("--template-linked").arg(path(1));
            }
        }
        2 => {
            cmd.arg("translate-policy").arg("--direction").arg(if pjson { "json-to-cedar" } else { "cedar-to-json" }).arg("--policies").arg(path(0));
        }
        3 => {
            cmd.arg("translate-schema").arg("--direction").arg("cedar-to-json").arg("--schema").arg(path(3));
        }
        4 => {
            cmd.arg("translate-schema").arg("--direction").arg("json-to-cedar").arg("--schema").arg(path(3));
        }
        6 => {
            cmd.arg("format").arg("--policies").arg(path(0)).arg("--line-width").arg(fmt_cfg.line_width.to_string()).arg("--indent-width").arg(fmt_cfg.indent_width.to_string());
            if op.fmt_check {
                cmd.arg("--check");
            }
        }
        _ => {
            cmd.arg("check-parse").arg("--policies").arg(path(0)).arg("--entities").arg(path(2));
            if pjson {
                cmd.arg("--policy-format").arg("json");
            }
            if had[3] {
                cmd.arg("--schema").arg(path(3)).arg("--schema-format").arg(if json_schema { "json" } else { "cedar" });
            }
        }
    }
    let output = cmd.output();
    let _ = std::fs::remove_dir_all(&dir);
    let output = match output {
        Ok(o) => o,
        Err(e) => {
            out.violation = viol("harness_io", "cannot run the cedar binary", step, "spawn".into(), e.to_string());
            return out;
        }
    };
    let code = output.status.code();
    let stdout = String::from_utf8_lossy(&output.stdout).to_string();
    let first_line = stdout.lines().find(|l| !l.trim().is_empty()).unwrap_or("").trim().to_string();
    out.events.push(format!("{step} cli kind{kind} -> exit {code:?} first line {:?}", first_line.chars().take(12).collect::<String>()));
    if code.is_none() {
        out.violation = viol("cli_crashed", &format!("cli kind{kind} died by signal"), step, "an exit status".into(), format!("{:?} stderr: {}", output.status, String::from_utf8_lossy(&output.stderr).chars().take(300).collect::<String>()));
        return out;
    }
    let code = code.unwrap_or(-1);
    // ---- reference: what the API reports for those bytes
    match kind {
        0 => {
            let policies = api_policies(&files, with_links, pjson);
            let schema = if had[3] { api_schema_bytes(&files, json_schema).map(Some) } else { Ok(None) };
            let want: Result<(Decision, BTreeSet<String>), String> = (|| {
                let mut errs = vec![];
                let policies = policies.map_err(|e| errs.push(e)).ok();
                let schema = match schema {
                    Ok(s) => s,
                    Err(e) => {
                        errs.push(e);
                        None
                    }
                };
                let entities = match files[2].as_ref() {
                    None => {
                        errs.push("entities absent".into());
                        None
                    }
                    Some(b) => Entities::from_json_file(&b[..], schema.as_ref()).map_err(|e| errs.push(e.to_string())).ok(),
                };
                let (p, a, r, ctx) = if op.request_json {
                    // mirror of the documented --request-json format: strings for the three uids, a JSON object for the context
                    #[derive(Deserialize)]
                    struct RequestJson {
                        #[serde(default)]
                        principal: Option<String>,
                        #[serde(default)]
                        action: Option<String>,
                        #[serde(default)]
                        resource: Option<String>,
                        context: Value,
                    }
                    let rb = files[5].as_ref().ok_or("request-json absent")?;
                    let text = std::str::from_utf8(rb).map_err(|e| e.to_string())?;
                    let q: RequestJson = serde_json::from_str(text).map_err(|e| e.to_string())?;
                    let p = EntityUid::from_str(&q.principal.ok_or("missing principal")?).map_err(|e| e.to_string())?;
                    let a = EntityUid::from_str(&q.action.ok_or("missing action")?).map_err(|e| e.to_string())?;
                    let r = EntityUid::from_str(&q.resource.ok_or("missing resource")?).map_err(|e| e.to_string())?;
                    let ctx = Context::from_json_value(q.context, schema.as_ref().map(|s| (s, &a))).map_err(|e| e.to_string())?;
                    (p, a, r, ctx)
                } else {
                    let p = EntityUid::from_str(&op.req.p).map_err(|e| e.to_string())?;
                    let a = EntityUid::from_str(&op.req.a).map_err(|e| e.to_string())?;
                    let r = EntityUid::from_str(&op.req.r).map_err(|e| e.to_string())?;
                    let cb = files[4].as_ref().ok_or("context absent")?;
                    let ctx = Context::from_json_file(&cb[..], schema.as_ref().map(|s| (s, &a))).map_err(|e| e.to_string())?;
                    (p, a, r, ctx)
                };
                let req = Request::new(p, a, r, ctx, if op.request_validation { schema.as_ref() } else { None }).map_err(|e| e.to_string())?;
                if !errs.is_empty() {
                    return Err(errs.join("; "));
                }
                let (Some(policies), Some(entities)) = (policies, entities) else { return Err("unreachable".into()) };
                let resp = Authorizer::new().is_authorized(&req, &policies, &entities);
                Ok((resp.decision(), resp.diagnostics().reason().map(|p| p.to_string()).collect()))
            })();
            match want {
                Err(e) => {
                    out.counts.push(("designed_failures_observed", 1));
                    if !fired.is_empty() {
                        out.counts.push(("reach.cli_fault_made_document_unloadable", 1));
                    }
                    if code != 1 || first_line == "ALLOW" || first_line == "DENY" {
                        let k = if first_line == "ALLOW" { "cli_allow_on_unloadable_input" } else { "cli_exit_status" };
                        out.violation = viol(k, "cli authorize", step, format!("exit 1 and no decision (API: {e})"), format!("exit {code}, first line {first_line:?}"));
                    }
                }
                Ok((d, reasons)) => {
                    if !fired.is_empty() {
                        out.counts.push(("reach.cli_fault_survived_parse", 1));
                    }
                    let (wc, wl) = if d == Decision::Allow { (0, "ALLOW") } else { (2, "DENY") };
                    out.counts.push(("cli_decisions_compared", 1));
                    if code != wc || first_line != wl {
                        out.violation = viol("cli_decision", "cli authorize", step, format!("exit {wc} and {wl}"), format!("exit {code}, first line {first_line:?}"));
                    } else if op.verbose {
                        let mut got = BTreeSet::new();
                        let mut on = false;
                        for l in stdout.lines() {
                            if l.starts_with("note: this decision was due to the following policies:") {
                                on = true;
                                continue;
                            }
                            if on {
                                if l.starts_with("  ") && !l.trim().is_empty() {
                                    got.insert(l.trim().to_string());
                                } else {
                                    on = false;
                                }
                            }
                        }
                        if got != reasons {
                            out.violation = viol("cli_reasons", "cli authorize --verbose", step, format!("{reasons:?}"), format!("{got:?}"));
                        }
                    }
                }
            }
        }
        1 => {
            let want: Result<bool, String> = (|| {
                let p = api_policies(&files, with_links, pjson)?;
                let s = api_schema_bytes(&files, json_schema)?;
                let v = Validator::new(s);
                let res = match op.level {
                    Some(l) => v.validate_with_level(&p, ValidationMode::Strict, l as u32),
                    None => v.validate(&p, ValidationMode::Strict),
                };
                Ok(res.validation_passed() && !(op.deny_warnings && !res.validation_passed_without_warnings()))
            })();
            let wc = match &want {
                Err(_) => 1,
                Ok(true) => 0,
                Ok(false) => 3,
            };
            if want.is_err() {
                out.counts.push(("designed_failures_observed", 1));
            }
            if code != wc {
                out.violation = viol("cli_exit_status", "cli validate", step, format!("exit {wc} ({want:?})"), format!("exit {code}"));
            }
        }
        2 if pjson => {
            let want: Result<String, String> = (|| {
                let p = api_policies(&files, false, true)?;
                p.to_cedar().ok_or_else(|| "contains template-linked policies".to_string())
            })();
            match want {
                Err(_) => {
                    out.counts.push(("designed_failures_observed", 1));
                    if code != 1 {
                        out.violation = viol("cli_exit_status", "cli translate-policy json-to-cedar", step, "exit 1".into(), format!("exit {code}"));
                    }
                }
                Ok(w) => {
                    if code != 0 || stdout.trim() != w.trim() {
                        out.violation = viol("cli_conversion_differs", "cli translate-policy json-to-cedar", step, format!("exit 0 and {}", w.chars().take(300).collect::<String>()), format!("exit {code} and {}", stdout.chars().take(300).collect::<String>()));
                    }
                }
            }
        }
        2 => {
            let want: Result<Value, String> = (|| {
                let p = api_policies(&files, false, pjson)?;
                p.to_json().map_err(|e| e.to_string())
            })();
            match want {
                Err(_) => {
                    out.counts.push(("designed_failures_observed", 1));
                    if code != 1 {
                        out.violation = viol("cli_exit_status", "cli translate-policy", step, "exit 1".into(), format!("exit {code}"));
                    }
                }
                Ok(w) => {
                    let got: Option<Value> = serde_json::from_str(stdout.trim()).ok();
                    if code != 0 || got.as_ref() != Some(&w) {
                        out.violation = viol("cli_conversion_differs", "cli translate-policy", step, format!("exit 0 and {w}"), format!("exit {code} and {}", stdout.chars().take(300).collect::<String>()));
                    }
                }
            }
        }
        3 | 4 => {
            let want: Result<String, String> = (|| {
                let bytes = files[3].as_ref().ok_or("schema file absent")?;
                let text = std::str::from_utf8(bytes).map_err(|e| e.to_string())?;
                if kind == 3 {
                    let (f, _) = SchemaFragment::from_cedarschema_str(text).map_err(|e| e.to_string())?;
                    f.to_json_string().map_err(|e| e.to_string())
                } else {
                    let f = SchemaFragment::from_json_str(text).map_err(|e| e.to_string())?;
                    f.to_cedarschema().map_err(|e| e.to_string())
                }
            })();
            match want {
                Err(_) => {
                    out.counts.push(("designed_failures_observed", 1));
                    if code != 1 {
                        out.violation = viol("cli_exit_status", "cli translate-schema", step, "exit 1".into(), format!("exit {code}"));
                    }
                }
                Ok(w) => {
                    let same = if kind == 3 { serde_json::from_str::<Value>(stdout.trim()).ok() == serde_json::from_str::<Value>(&w).ok() } else { stdout.trim() == w.trim() };
                    if code != 0 || !same {
                        out.violation = viol("cli_conversion_differs", "cli translate-schema", step, format!("exit 0 and {}", w.chars().take(200).collect::<String>()), format!("exit {code} and {}", stdout.chars().take(200).collect::<String>()));
                    }
                }
            }
        }
        6 => {
            let want: Result<(String, bool), String> = (|| {
                let bytes = files[0].as_ref().ok_or("policies file absent")?;
                let text = std::str::from_utf8(bytes).map_err(|e| e.to_string())?;
                let f = policies_str_to_pretty(text, &fmt_cfg).map_err(|e| format!("{e:?}"))?;
                let same = f == text;
                Ok((f, same))
            })();
            match want {
                Err(_) => {
                    out.counts.push(("designed_failures_observed", 1));
                    if code != 1 {
                        out.violation = viol("cli_exit_status", "cli format", step, "exit 1 (the API cannot format these bytes)".into(), format!("exit {code}"));
                    }
                }
                Ok((f, same)) => {
                    out.counts.push(("cli_format_compared", 1));
                    let wc = if op.fmt_check && !same { 1 } else { 0 };
                    if code != wc {
                        out.violation = viol("cli_exit_status", if op.fmt_check { "cli format --check" } else { "cli format" }, step, format!("exit {wc} (already formatted: {same})"), format!("exit {code}"));
                    } else if stdout != f {
                        out.violation = viol("cli_conversion_differs", "cli format output", step, f.chars().take(300).collect(), stdout.chars().take(300).collect());
                    }
                }
            }
        }
        _ => {
            let ok_p = api_policies(&files, false, pjson).is_ok();
            let schema = if had[3] { api_schema_bytes(&files, json_schema).map(Some) } else { Ok(None) };
            let ok_s = schema.is_ok();
            // the CLI loads entities with the schema only when the schema parsed
            let ok_e = match (files[2].as_ref(), &schema) {
                (Some(b), Ok(s)) => Entities::from_json_file(&b[..], s.as_ref()).is_ok(),
                (Some(b), Err(_)) => Entities::from_json_file(&b[..], None).is_ok(),
                (None, _) => false,
            };
            let wc = if ok_p && ok_s && ok_e { 0 } else { 1 };
            if wc == 1 {
                out.counts.push(("designed_failures_observed", 1));
            }
            // when the schema itself fails, the exit status is 1 regardless of how entities fare
            if code != wc && !(wc == 1 && code == 1) {
                out.violation = viol("cli_exit_status", "cli check-parse", step, format!("exit {wc} (policies {ok_p} schema {ok_s} entities {ok_e})"), format!("exit {code}"));
            }
        }
    }
    out
}

#[allow(dead_code)]
fn _unused(_: BTreeMap<u8, u8>) {}
