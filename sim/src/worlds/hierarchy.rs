//! World `hierarchy` (C04): add/upsert/remove histories over an entity store under owned hash
//! order, checked step by step against a parent-reachability model.

use crate::core::*;
use crate::hashseam::on_fresh_thread;
use crate::rng::{mix, Rng};
use cedar_policy::proto::traits::Protobuf;
use cedar_policy::entities_errors::EntitiesError;
use cedar_policy::{Authorizer, Context, Entities, Entity, EntityId, EntityTypeName, EntityUid, PolicySet, Request};
use cedar_policy_core::ast as cast;
use cedar_policy_core::entities as cent;
use cedar_policy_core::extensions::Extensions;
use serde::{Deserialize, Serialize};
use std::collections::{BTreeMap, BTreeSet, HashSet};
use std::str::FromStr;
use std::sync::{Arc, OnceLock};

pub const MAX_POOL: usize = 10;

#[derive(Clone, Debug, Serialize, Deserialize, PartialEq)]
pub struct Rec {
    pub id: u8,
    pub parents: Vec<u8>,
}

/// record with an explicit (claimed) set of indirect ancestors, for the enforce routes
#[derive(Clone, Debug, Serialize, Deserialize, PartialEq)]
pub struct RecTc {
    pub id: u8,
    pub parents: Vec<u8>,
    pub indirect: Vec<u8>,
}

#[derive(Clone, Debug, Serialize, Deserialize, PartialEq)]
#[serde(tag = "op")]
pub enum Op {
    FromEntities { batch: Vec<Rec> },
    Add { batch: Vec<Rec> },
    Upsert { batch: Vec<Rec> },
    Remove { ids: Vec<u8> },
    /// build a store through protobuf decode (ComputeNow + try_validate); replaces the store
    FromProto { batch: Vec<Rec> },
    /// add through the JSON route (add_entities_from_json_value)
    AddJson { batch: Vec<Rec> },
    /// build through the JSON route (from_json_value); replaces the store
    FromJson { batch: Vec<Rec> },
    /// replace the store by from_json_value(to_json_value()): the JSON form lists every ancestor
    /// under "parents", so afterwards every ancestor is a direct parent
    JsonRoundTrip,
    /// core from_entities(.., EnforceAlreadyComputed); checked, store unchanged
    Enforce { batch: Vec<RecTc> },
    /// core add_entities(.., EnforceAlreadyComputed) on the current store; checked, store unchanged
    EnforceAdd { batch: Vec<RecTc> },
}

#[derive(Clone, Debug, Serialize, Deserialize)]
pub struct Case {
    pub hash_seed: u64,
    pub replica_seeds: Vec<u64>,
    pub pool: u8,
    pub ops: Vec<Op>,
    /// run the `principal in ..` checks through the authorizer every n-th successful step (0 = only at the end)
    pub auth_every: u8,
}

type Graph = BTreeMap<u8, BTreeSet<u8>>;

fn reach(g: &Graph, e: u8) -> BTreeSet<u8> {
    let mut out = BTreeSet::new();
    let mut stack: Vec<u8> = g.get(&e).map(|p| p.iter().copied().collect()).unwrap_or_default();
    while let Some(x) = stack.pop() {
        if out.insert(x) {
            if let Some(ps) = g.get(&x) {
                stack.extend(ps.iter().copied());
            }
        }
    }
    out
}

fn has_cycle(g: &Graph) -> bool {
    g.keys().any(|e| reach(g, *e).contains(e))
}

fn graph_fp(g: &Graph) -> u64 {
    let mut h = 0x9AF0u64;
    for (k, ps) in g {
        h = mix(&[h, *k as u64 + 1]);
        for p in ps {
            h = mix(&[h, 0x100 + *p as u64]);
        }
    }
    h
}

pub struct Hierarchy;

fn uid(i: u8) -> EntityUid {
    EntityUid::from_type_name_and_id(EntityTypeName::from_str("E").expect("type name"), EntityId::new(format!("{i}")))
}
fn cuid(i: u8) -> cast::EntityUID {
    let u: cast::EntityUID = uid(i).into();
    u
}

fn probe_policies() -> &'static PolicySet {
    static PS: OnceLock<PolicySet> = OnceLock::new();
    PS.get_or_init(|| {
        let mut src = String::new();
        for i in 0..MAX_POOL {
            src.push_str(&format!("@id(\"in{i}\") permit(principal in E::\"{i}\", action, resource);\n"));
            let j = (i + 3) % MAX_POOL;
            src.push_str(&format!("@id(\"set{i}\") permit(principal, action, resource) when {{ principal in [E::\"{i}\", E::\"{j}\"] }};\n"));
        }
        let ps = PolicySet::from_str(&src).expect("probe policies parse");
        // rename by @id annotation so reasons are readable
        let mut out = PolicySet::new();
        for p in ps.policies() {
            let id = p.annotation("id").expect("has id").to_string();
            out.add(p.new_id(cedar_policy::PolicyId::new(id))).expect("fresh id");
        }
        out
    })
}

pub fn warm_up() {
    let _ = probe_policies();
}

fn mk_entity(r: &Rec) -> Entity {
    let parents: HashSet<EntityUid> = r.parents.iter().map(|p| uid(*p)).collect();
    Entity::new_no_attrs(uid(r.id), parents)
}

fn mk_core_entity(r: &RecTc) -> cast::Entity {
    let parents: HashSet<cast::EntityUID> = r.parents.iter().map(|p| cuid(*p)).collect();
    let indirect: HashSet<cast::EntityUID> = r.indirect.iter().filter(|p| !r.parents.contains(p)).map(|p| cuid(*p)).collect();
    cast::Entity::new_with_attr_partial_value(cuid(r.id), [], indirect, parents, [])
}

fn rec_json(r: &Rec) -> serde_json::Value {
    serde_json::json!({"uid": {"type": "E", "id": format!("{}", r.id)}, "attrs": {}, "parents": r.parents.iter().map(|p| serde_json::json!({"type": "E", "id": format!("{p}")})).collect::<Vec<_>>()})
}

fn id_of(u: &EntityUid) -> Option<u8> {
    let s: &str = u.id().as_ref();
    s.parse::<u8>().ok()
}

fn err_class(e: &EntitiesError) -> &'static str {
    match e {
        EntitiesError::Duplicate(_) => "duplicate",
        EntitiesError::TransitiveClosureError(_) => "tc",
        _ => "other",
    }
}

/// Apply a batch to the model with duplicates as no-ops; returns (new graph, had_duplicate)
fn model_add(g: &Graph, batch: &[Rec]) -> (Graph, bool) {
    let mut n = g.clone();
    let mut dup = false;
    for r in batch {
        if n.contains_key(&r.id) {
            dup = true;
        } else {
            n.insert(r.id, r.parents.iter().copied().collect());
        }
    }
    (n, dup)
}

struct Runner<'a> {
    case: &'a Case,
    obs: &'a mut Obs,
    replica: usize,
}

impl Runner<'_> {
    fn sig(&self, step: usize, what: &str) -> String {
        format!("{what} @step{step} replica{}", self.replica)
    }

    /// full comparison of the store against the model
    fn check_store(&mut self, step: usize, store: &Entities, g: &Graph, with_auth: bool) -> Option<Violation> {
        let pool = self.case.pool;
        // key set and size
        let keys: BTreeSet<u8> = store.iter().filter_map(|e| id_of(&e.uid())).collect();
        let want: BTreeSet<u8> = g.keys().copied().collect();
        if keys != want || store.len() != g.len() {
            return Some(Violation::new("store_keys", self.sig(step, "key set"), step, format!("{want:?}"), format!("{keys:?} len={}", store.len())));
        }
        for e in 0..pool {
            let ue = uid(e);
            let r = if g.contains_key(&e) { Some(reach(g, e)) } else { None };
            match (store.ancestors(&ue), &r) {
                (Some(it), Some(r)) => {
                    let got: BTreeSet<u8> = it.filter_map(id_of).collect();
                    self.obs.count("evaluations");
                    if &got != r {
                        let kind = if got.is_superset(r) { "stale_ancestor" } else { "missing_ancestor" };
                        return Some(Violation::new(kind, self.sig(step, "ancestors()"), step, format!("ancestors(E::{e}) = {r:?}"), format!("{got:?}")));
                    }
                }
                (None, None) => {}
                (a, _) => {
                    return Some(Violation::new("store_keys", self.sig(step, "ancestors() presence"), step, format!("record present: {}", r.is_some()), format!("ancestors() is_some: {}", a.is_some())));
                }
            }
            for a in 0..pool {
                let want = a == e || r.as_ref().is_some_and(|r| r.contains(&a));
                let got = store.is_ancestor_of(&uid(a), &ue);
                self.obs.count("evaluations");
                if got != want {
                    let v = Violation::new(
                        "is_ancestor_of",
                        format!("is_ancestor_of(a,e) a{}e present={} want={want}", if a == e { "==" } else { "!=" }, r.is_some()),
                        step,
                        format!("is_ancestor_of(E::{a}, E::{e}) = {want}"),
                        format!("{got}"),
                    );
                    if !self.obs.is_known(&v) {
                        return Some(v);
                    }
                }
            }
        }
        if with_auth {
            let auth = Authorizer::new();
            let ps = probe_policies();
            for e in 0..pool {
                let r = if g.contains_key(&e) { reach(g, e) } else { BTreeSet::new() };
                let req = match Request::new(uid(e), EntityUid::from_str("Action::\"a\"").expect("uid"), uid(0), Context::empty(), None) {
                    Ok(r) => r,
                    Err(_) => continue,
                };
                let resp = auth.is_authorized(&req, ps, store);
                let got: BTreeSet<String> = resp.diagnostics().reason().map(|p| p.to_string()).collect();
                let mut want = BTreeSet::new();
                let isin = |a: u8| a == e || r.contains(&a);
                for i in 0..MAX_POOL as u8 {
                    if isin(i) {
                        want.insert(format!("in{i}"));
                    }
                    if isin(i) || isin((i + 3) % MAX_POOL as u8) {
                        want.insert(format!("set{i}"));
                    }
                }
                self.obs.count("evaluations");
                self.obs.count("auth_in_checks");
                let nerr = resp.diagnostics().errors().count();
                if got != want || nerr != 0 {
                    return Some(Violation::new("eval_in", self.sig(step, "principal in .. via authorizer"), step, format!("principal=E::{e}: satisfied {want:?}"), format!("{got:?} errors={nerr}")));
                }
            }
        }
        None
    }

    fn check_closed_acyclic(&mut self, step: usize, what: &str, store: &cent::Entities) -> Option<Violation> {
        // literal reading: the ancestor relation of the accepted store is transitively closed and irreflexive
        let mut anc: BTreeMap<String, BTreeSet<String>> = BTreeMap::new();
        for e in store.iter() {
            anc.insert(e.uid().to_string(), e.ancestors().map(|a| a.to_string()).collect());
        }
        for (e, as_) in &anc {
            if as_.contains(e) {
                return Some(Violation::new("enforce_accepts_cycle", self.sig(step, what), step, "accepted store is acyclic", format!("{e} is its own ancestor")));
            }
            for a in as_ {
                if let Some(aa) = anc.get(a) {
                    if !aa.is_subset(as_) {
                        return Some(Violation::new("enforce_accepts_unclosed", self.sig(step, what), step, "accepted store is transitively closed", format!("{e} has ancestor {a} but lacks some of {aa:?}")));
                    }
                }
            }
        }
        None
    }

    fn run(&mut self) -> Option<Violation> {
        let mut store = Entities::empty();
        let mut g: Graph = Graph::new();
        let mut ok_steps = 0usize;
        let mut trail = 0u64;
        let mut changed_unnamed = false;
        let n = self.case.ops.len();
        for (step, op) in self.case.ops.iter().enumerate() {
            self.obs.count("logical_steps");
            let before = g.clone();
            let mut named: BTreeSet<u8> = BTreeSet::new();
            let res: Result<Entities, EntitiesError>;
            let predicted: Graph;
            let mut dup = false;
            let opname;
            match op {
                Op::FromEntities { batch } => {
                    opname = "from_entities";
                    named.extend(batch.iter().map(|r| r.id));
                    let (m, d) = model_add(&Graph::new(), batch);
                    predicted = m;
                    dup = d;
                    res = Entities::from_entities(batch.iter().map(mk_entity), None);
                }
                Op::Add { batch } => {
                    opname = "add";
                    named.extend(batch.iter().map(|r| r.id));
                    let (m, d) = model_add(&g, batch);
                    predicted = m;
                    dup = d;
                    res = store.clone().add_entities(batch.iter().map(mk_entity), None);
                }
                Op::AddJson { batch } => {
                    opname = "add_json";
                    named.extend(batch.iter().map(|r| r.id));
                    let (m, d) = model_add(&g, batch);
                    predicted = m;
                    dup = d;
                    res = store.clone().add_entities_from_json_value(serde_json::Value::Array(batch.iter().map(rec_json).collect()), None);
                }
                Op::FromJson { batch } => {
                    opname = "from_json";
                    named.extend(batch.iter().map(|r| r.id));
                    let (m, d) = model_add(&Graph::new(), batch);
                    predicted = m;
                    dup = d;
                    res = Entities::from_json_value(serde_json::Value::Array(batch.iter().map(rec_json).collect()), None);
                }
                Op::JsonRoundTrip => {
                    opname = "json_round_trip";
                    let mut m = Graph::new();
                    for k in g.keys() {
                        m.insert(*k, reach(&g, *k));
                    }
                    predicted = m;
                    res = match store.to_json_value() {
                        Ok(v) => Entities::from_json_value(v, None),
                        Err(e) => Err(e),
                    };
                }
                Op::Upsert { batch } => {
                    opname = "upsert";
                    named.extend(batch.iter().map(|r| r.id));
                    let mut m = g.clone();
                    for r in batch {
                        m.insert(r.id, r.parents.iter().copied().collect());
                    }
                    predicted = m;
                    res = store.clone().upsert_entities(batch.iter().map(mk_entity), None);
                }
                Op::Remove { ids } => {
                    opname = "remove";
                    named.extend(ids.iter().copied());
                    let mut m = g.clone();
                    for u in ids {
                        if m.remove(u).is_some() {
                            for ps in m.values_mut() {
                                ps.remove(u);
                            }
                        } else {
                            self.obs.count("reach.remove_absent_id");
                        }
                    }
                    predicted = m;
                    res = store.clone().remove_entities(ids.iter().map(|u| uid(*u)));
                }
                Op::FromProto { batch } => {
                    opname = "from_proto";
                    named.extend(batch.iter().map(|r| r.id));
                    // a message is a list of records whose `ancestors` field carries the parents
                    let recs: Vec<RecTc> = batch.iter().map(|r| RecTc { id: r.id, parents: r.parents.clone(), indirect: vec![] }).collect();
                    let core = cent::Entities::from_entities(recs.iter().map(mk_core_entity), None::<&cent::NoEntitiesSchema>, cent::TCComputation::AssumeAlreadyComputed, Extensions::all_available());
                    let core = match core {
                        Ok(c) => c,
                        Err(_) => {
                            // duplicate uids inside the batch: cannot even build the message; skip
                            self.obs.count("skipped_ops");
                            continue;
                        }
                    };
                    let (m, d) = model_add(&Graph::new(), batch);
                    predicted = m;
                    dup = d;
                    let bytes = match Entities::from(core).encode() {
                        Ok(b) => b,
                        Err(_) => {
                            self.obs.count("skipped_ops");
                            continue;
                        }
                    };
                    match Entities::decode(&bytes[..]) {
                        Ok(s) => res = Ok(s),
                        Err(e) => {
                            // classify by the model: the only legitimate rejection is a cycle
                            self.obs.event(format!("{step} from_proto err"));
                            if has_cycle(&predicted) {
                                self.obs.count("designed_failures_observed");
                                self.obs.count("reach.cycle_rejected");
                                continue;
                            }
                            return Some(Violation::new("unexpected_error", self.sig(step, "from_proto"), step, "decode succeeds for an acyclic store", format!("{e}")));
                        }
                    }
                }
                Op::Enforce { batch } | Op::EnforceAdd { batch } => {
                    let is_add = matches!(op, Op::EnforceAdd { .. });
                    let what = if is_add { "enforce_add" } else { "enforce" };
                    self.obs.count("enforce_ops");
                    let ents: Vec<cast::Entity> = batch.iter().map(mk_core_entity).collect();
                    let r = if is_add {
                        let base: cent::Entities = store.as_ref().clone();
                        base.add_entities(ents.into_iter().map(Arc::new), None::<&cent::NoEntitiesSchema>, cent::TCComputation::EnforceAlreadyComputed, Extensions::all_available())
                    } else {
                        cent::Entities::from_entities(ents, None::<&cent::NoEntitiesSchema>, cent::TCComputation::EnforceAlreadyComputed, Extensions::all_available())
                    };
                    // model side: is the submitted relation closed and acyclic?
                    let mut rel: BTreeMap<u8, BTreeSet<u8>> = BTreeMap::new();
                    let mut dup_in = false;
                    if is_add {
                        for (k, _) in g.iter() {
                            rel.insert(*k, reach(&g, *k));
                        }
                    }
                    for r in batch {
                        let a: BTreeSet<u8> = r.parents.iter().chain(r.indirect.iter()).copied().collect();
                        if rel.contains_key(&r.id) {
                            dup_in = true;
                        } else {
                            rel.insert(r.id, a);
                        }
                    }
                    let closed = rel.iter().all(|(_, as_)| as_.iter().all(|a| rel.get(a).is_none_or(|aa| aa.is_subset(as_))));
                    let acyclic = rel.iter().all(|(e, as_)| !as_.contains(e));
                    self.obs.event(format!("{step} {what} ok={}", r.is_ok()));
                    self.obs.count("evaluations");
                    match r {
                        Ok(s) => {
                            self.obs.count("enforce_accepted");
                            if let Some(v) = self.check_closed_acyclic(step, what, &s) {
                                return Some(v);
                            }
                        }
                        Err(e) => {
                            self.obs.count("enforce_rejected");
                            if closed && acyclic && !dup_in {
                                return Some(Violation::new("enforce_rejects_closed_dag", self.sig(step, what), step, "a transitively closed acyclic store is accepted (documented error conditions do not apply)", format!("{e}")));
                            }
                            if !closed {
                                self.obs.count("reach.enforce_rejected_unclosed");
                            }
                            if !acyclic {
                                self.obs.count("reach.enforce_rejected_cycle");
                            }
                        }
                    }
                    continue;
                }
            }
            let cyc = has_cycle(&predicted);
            match res {
                Ok(s) => {
                    self.obs.event(format!("{step} {opname} ok"));
                    if cyc {
                        return Some(Violation::new("cycle_accepted", self.sig(step, opname), step, "operation rejected: an entity would be its own ancestor", "operation produced a store"));
                    }
                    store = s;
                    g = predicted;
                    ok_steps += 1;
                    if dup {
                        self.obs.count("duplicate_noop_accepted");
                    }
                    // reach probes, on the model side
                    for (e, _) in g.iter() {
                        if !named.contains(e) && before.contains_key(e) && reach(&before, *e) != reach(&g, *e) {
                            changed_unnamed = true;
                            self.obs.count("reach.unnamed_entity_closure_changed");
                            break;
                        }
                    }
                    if let Op::Remove { ids } = op {
                        // removal where an ancestor stays reachable through an alternative path
                        'probe: for u in ids {
                            if !before.contains_key(u) {
                                continue;
                            }
                            for a in reach(&before, *u) {
                                for (e, _) in g.iter() {
                                    if reach(&before, *e).contains(u) && reach(&g, *e).contains(&a) {
                                        self.obs.count("reach.remove_with_alternative_path");
                                        break 'probe;
                                    }
                                }
                            }
                        }
                    }
                    if g.values().any(|ps| ps.iter().any(|p| !g.contains_key(p))) {
                        self.obs.count("reach.dangling_parent_present");
                    }
                    let with_auth = step + 1 == n || (self.case.auth_every > 0 && ok_steps % self.case.auth_every as usize == 0);
                    if let Some(v) = self.check_store(step, &store, &g, with_auth) {
                        return Some(v);
                    }
                    trail = mix(&[trail, graph_fp(&g)]);
                    self.obs.mark("model_states", graph_fp(&g));
                }
                Err(e) => {
                    let class = err_class(&e);
                    self.obs.event(format!("{step} {opname} err {class}"));
                    self.obs.count("designed_failures_observed");
                    let acceptable = match class {
                        "tc" => cyc,
                        "duplicate" => dup,
                        _ => false,
                    };
                    if cyc {
                        self.obs.count("reach.cycle_rejected");
                    }
                    if !acceptable {
                        return Some(Violation::new(
                            "unexpected_error",
                            self.sig(step, opname),
                            step,
                            format!("success (model: cycle={cyc} duplicate={dup})"),
                            format!("{class}: {e}"),
                        ));
                    }
                    // the run continues from the pre-op store (harness kept it)
                }
            }
        }
        if changed_unnamed {
            self.obs.mark("nontrivial", trail);
        }
        self.obs.mark("schedules", mix(&[trail, self.case.hash_seed, self.replica as u64]));
        None
    }
}

fn gen_batch(rng: &mut Rng, pool: u8, g: &Graph, max: usize) -> Vec<Rec> {
    let n = rng.range(1, max);
    let mut out: Vec<Rec> = vec![];
    for _ in 0..n {
        let id = rng.below(pool as usize) as u8;
        let np = *rng.pick(&[0usize, 0, 1, 1, 1, 2, 2, 3]);
        let mut parents = vec![];
        for _ in 0..np {
            let p = if rng.pct(3) {
                id // self loop
            } else if rng.pct(30) && !g.is_empty() {
                // an existing descendant of id (closes a cycle) or any existing node
                let ds: Vec<u8> = g.keys().copied().filter(|d| reach(g, *d).contains(&id)).collect();
                if !ds.is_empty() && rng.pct(20) {
                    *rng.pick(&ds)
                } else {
                    let ks: Vec<u8> = g.keys().copied().collect();
                    *rng.pick(&ks)
                }
            } else {
                rng.below(pool as usize) as u8
            };
            if !parents.contains(&p) {
                parents.push(p);
            }
        }
        out.push(Rec { id, parents });
        // duplicate inside the batch: identical or not
        if rng.pct(4) {
            let mut d = out[out.len() - 1].clone();
            if rng.pct(50) {
                d.parents.push(rng.below(pool as usize) as u8);
                d.parents.dedup();
            }
            out.push(d);
        }
    }
    out
}

/// A whole graph in one batch: 3..pool nodes, each edge drawn independently; `cyclic` allows back
/// edges (two cycles sharing a node, long cycles with tails, self loops inside larger components)
fn gen_dense_batch(rng: &mut Rng, pool: u8, cyclic: bool) -> Vec<Rec> {
    let n = rng.range(3, pool as usize) as u8;
    let density = *rng.pick(&[12u32, 20, 30, 45]);
    let mut out = vec![];
    for i in 0..n {
        let mut parents = vec![];
        for j in 0..pool {
            if j == i && !(cyclic && rng.pct(3)) {
                continue;
            }
            let forward = j > i;
            if (forward || cyclic && rng.pct(35)) && rng.pct(density) {
                parents.push(j);
            }
        }
        out.push(Rec { id: i, parents });
    }
    rng.shuffle(&mut out);
    out
}

fn closure_batch(rng: &mut Rng, pool: u8, shape: usize) -> Vec<RecTc> {
    // draw a random graph, close it, then damage it according to `shape`
    let n = rng.range(2, pool as usize);
    let mut g = Graph::new();
    for i in 0..n as u8 {
        let mut ps = BTreeSet::new();
        for _ in 0..rng.below(3) {
            let p = rng.below(pool as usize) as u8;
            // shape 2 allows back edges (cycles); otherwise only edges to higher ids (a DAG)
            if shape == 2 || p > i {
                ps.insert(p);
            }
        }
        g.insert(i, ps);
    }
    let mut out: Vec<RecTc> = g
        .iter()
        .map(|(e, ps)| {
            let r = reach(&g, *e);
            RecTc { id: *e, parents: ps.iter().copied().collect(), indirect: r.iter().copied().filter(|a| !ps.contains(a)).collect() }
        })
        .collect();
    if shape == 1 {
        // closure minus one indirect edge
        let cands: Vec<usize> = out.iter().enumerate().filter(|(_, r)| !r.indirect.is_empty()).map(|(i, _)| i).collect();
        if !cands.is_empty() {
            let i = *rng.pick(&cands);
            let k = rng.below(out[i].indirect.len());
            out[i].indirect.remove(k);
        }
    }
    if shape == 3 {
        // exact closure plus one spurious ancestor somewhere
        let i = rng.below(out.len());
        let extra = rng.below(pool as usize) as u8;
        if !out[i].parents.contains(&extra) && !out[i].indirect.contains(&extra) {
            out[i].indirect.push(extra);
        }
    }
    rng.shuffle(&mut out);
    out
}

impl World for Hierarchy {
    type Case = Case;
    fn property(&self) -> &'static str {
        "C04"
    }
    fn name(&self) -> &'static str {
        "hierarchy"
    }
    fn runs(&self, tier: Tier) -> u64 {
        match tier {
            Tier::Quick => 150_000,
            Tier::Thorough => 3_000_000,
        }
    }
    fn generate(&self, seed: u64, _tier: Tier) -> Case {
        let mut rng = Rng::sub(seed, "workload");
        let mut hs = Rng::sub(seed, "hashkeys");
        let pool = rng.range(3, MAX_POOL) as u8;
        let nops = rng.range(3, 30);
        // swarm: op mix weights drawn per run
        let w: Vec<u32> = (0..10).map(|i| if rng.pct(20) { 0 } else { [2u32, 8, 6, 6, 1, 2, 2, 3, 1, 1][i] * rng.range(1, 3) as u32 }).collect();
        let mut ops = vec![];
        // the generator tracks an approximate model only to bias choices (cycles, alternative paths)
        let mut g = Graph::new();
        if rng.pct(70) {
            let b = if rng.pct(50) { let c = rng.pct(25); gen_dense_batch(&mut rng, pool, c) } else { gen_batch(&mut rng, pool, &g, 5) };
            let (m, _) = model_add(&Graph::new(), &b);
            if !has_cycle(&m) {
                g = m;
            }
            ops.push(Op::FromEntities { batch: b });
        }
        while ops.len() < nops {
            match rng.weighted(&w) {
                0 => {
                    let b = if rng.pct(45) { let c = rng.pct(35); gen_dense_batch(&mut rng, pool, c) } else { gen_batch(&mut rng, pool, &g, 5) };
                    let (m, _) = model_add(&Graph::new(), &b);
                    if !has_cycle(&m) {
                        g = m;
                    }
                    ops.push(Op::FromEntities { batch: b });
                }
                1 => {
                    let b = gen_batch(&mut rng, pool, &g, 4);
                    let (m, _) = model_add(&g, &b);
                    if !has_cycle(&m) {
                        g = m;
                    }
                    ops.push(Op::Add { batch: b });
                }
                2 => {
                    let mut b = gen_batch(&mut rng, pool, &g, 3);
                    // bias: upsert an existing node with fewer parents
                    if rng.pct(40) && !g.is_empty() {
                        let ks: Vec<u8> = g.keys().copied().collect();
                        let k = *rng.pick(&ks);
                        let mut ps: Vec<u8> = g[&k].iter().copied().collect();
                        if !ps.is_empty() {
                            ps.remove(rng.below(ps.len()));
                        }
                        b.push(Rec { id: k, parents: ps });
                    }
                    let mut m = g.clone();
                    for r in &b {
                        m.insert(r.id, r.parents.iter().copied().collect());
                    }
                    if !has_cycle(&m) {
                        g = m;
                    }
                    ops.push(Op::Upsert { batch: b });
                }
                3 => {
                    let mut ids = vec![];
                    let k = rng.range(1, 3);
                    for _ in 0..k {
                        // bias: remove a node that sits in the middle of a chain
                        let mids: Vec<u8> = g.keys().copied().filter(|m| !g[m].is_empty() && g.values().any(|ps| ps.contains(m))).collect();
                        if !mids.is_empty() && rng.pct(60) {
                            ids.push(*rng.pick(&mids));
                        } else if !g.is_empty() && rng.pct(75) {
                            let ks: Vec<u8> = g.keys().copied().collect();
                            ids.push(*rng.pick(&ks));
                        } else {
                            ids.push(rng.below(pool as usize) as u8);
                        }
                    }
                    for u in &ids {
                        if g.remove(u).is_some() {
                            for ps in g.values_mut() {
                                ps.remove(u);
                            }
                        }
                    }
                    ops.push(Op::Remove { ids });
                }
                4 => {
                    let b = if rng.pct(45) { let c = rng.pct(35); gen_dense_batch(&mut rng, pool, c) } else { gen_batch(&mut rng, pool, &g, 5) };
                    let (m, _) = model_add(&Graph::new(), &b);
                    if !has_cycle(&m) {
                        g = m;
                    }
                    ops.push(Op::FromProto { batch: b });
                }
                5 => {
                    let shape = rng.below(4);
                    ops.push(Op::Enforce { batch: closure_batch(&mut rng, pool, shape) });
                }
                6 => {
                    let shape = rng.below(4);
                    let mut b = closure_batch(&mut rng, pool, shape);
                    b.truncate(rng.range(1, 3));
                    ops.push(Op::EnforceAdd { batch: b });
                }
                7 => {
                    let b = gen_batch(&mut rng, pool, &g, 4);
                    let (m, _) = model_add(&g, &b);
                    if !has_cycle(&m) {
                        g = m;
                    }
                    ops.push(Op::AddJson { batch: b });
                }
                8 => {
                    let b = if rng.pct(45) { let c = rng.pct(35); gen_dense_batch(&mut rng, pool, c) } else { gen_batch(&mut rng, pool, &g, 5) };
                    let (m, _) = model_add(&Graph::new(), &b);
                    if !has_cycle(&m) {
                        g = m;
                    }
                    ops.push(Op::FromJson { batch: b });
                }
                _ => {
                    let mut m = Graph::new();
                    for k in g.keys() {
                        m.insert(*k, reach(&g, *k));
                    }
                    g = m;
                    ops.push(Op::JsonRoundTrip);
                }
            }
        }
        let nrep = *rng.pick(&[0usize, 0, 1, 1, 3]);
        Case { hash_seed: hs.next(), replica_seeds: (0..nrep).map(|_| hs.next()).collect(), pool, ops, auth_every: *rng.pick(&[0u8, 0, 1, 3, 5]) }
    }
    fn hash_seed(&self, case: &Case) -> u64 {
        case.hash_seed
    }
    fn execute(&self, case: &Case, obs: &mut Obs) -> Option<Violation> {
        if let Some(v) = (Runner { case, obs, replica: 0 }).run() {
            return Some(v);
        }
        // replicas: the same history under other hash orders
        for (i, s) in case.replica_seeds.iter().enumerate() {
            let c = case.clone();
            let known = obs.known.clone();
            let prop = obs.property.clone();
            let keep = obs.keep_log;
            let r = on_fresh_thread(*s, 16, move || {
                let mut o = Obs::new(&prop, known, keep);
                let v = (Runner { case: &c, obs: &mut o, replica: i + 1 }).run();
                (o, v)
            });
            obs.count("fault.hash_order_replica");
            match r {
                Ok((o, v)) => {
                    obs.merge(&o);
                    obs.digest = mix(&[obs.digest, o.digest]);
                    if keep {
                        obs.log.extend(o.log);
                    }
                    if v.is_some() {
                        return v;
                    }
                }
                Err(msg) => {
                    return Some(Violation::new("panic", format!("panic in replica: {}", msg.chars().take(120).collect::<String>()), usize::MAX, "no panic", msg));
                }
            }
        }
        None
    }
    fn shrink(&self, case: &Case) -> Vec<Case> {
        let mut out = vec![];
        // fewer threads first
        if !case.replica_seeds.is_empty() {
            out.push(Case { replica_seeds: vec![], ..case.clone() });
            for s in &case.replica_seeds {
                out.push(Case { hash_seed: *s, replica_seeds: vec![], ..case.clone() });
            }
        }
        for ops in list_shrinks(&case.ops) {
            out.push(Case { ops, ..case.clone() });
        }
        // per-op argument shrinking
        for (i, op) in case.ops.iter().enumerate() {
            let mut variants: Vec<Op> = vec![];
            match op {
                Op::FromEntities { batch } => {
                    for b in list_shrinks(batch) {
                        if !b.is_empty() {
                            variants.push(Op::FromEntities { batch: b });
                        }
                    }
                    for b in rec_shrinks(batch) {
                        variants.push(Op::FromEntities { batch: b });
                    }
                }
                Op::Add { batch } => {
                    for b in list_shrinks(batch) {
                        if !b.is_empty() {
                            variants.push(Op::Add { batch: b });
                        }
                    }
                    for b in rec_shrinks(batch) {
                        variants.push(Op::Add { batch: b });
                    }
                }
                Op::Upsert { batch } => {
                    for b in list_shrinks(batch) {
                        if !b.is_empty() {
                            variants.push(Op::Upsert { batch: b });
                        }
                    }
                    for b in rec_shrinks(batch) {
                        variants.push(Op::Upsert { batch: b });
                    }
                }
                Op::FromProto { batch } => {
                    variants.push(Op::FromEntities { batch: batch.clone() });
                    for b in list_shrinks(batch) {
                        if !b.is_empty() {
                            variants.push(Op::FromProto { batch: b });
                        }
                    }
                }
                Op::AddJson { batch } => {
                    variants.push(Op::Add { batch: batch.clone() });
                    for b in list_shrinks(batch) {
                        if !b.is_empty() {
                            variants.push(Op::AddJson { batch: b });
                        }
                    }
                }
                Op::FromJson { batch } => {
                    variants.push(Op::FromEntities { batch: batch.clone() });
                    for b in list_shrinks(batch) {
                        if !b.is_empty() {
                            variants.push(Op::FromJson { batch: b });
                        }
                    }
                }
                Op::JsonRoundTrip => {}
                Op::Remove { ids } => {
                    for b in list_shrinks(ids) {
                        if !b.is_empty() {
                            variants.push(Op::Remove { ids: b });
                        }
                    }
                }
                Op::Enforce { batch } => {
                    for b in list_shrinks(batch) {
                        if !b.is_empty() {
                            variants.push(Op::Enforce { batch: b });
                        }
                    }
                }
                Op::EnforceAdd { batch } => {
                    for b in list_shrinks(batch) {
                        if !b.is_empty() {
                            variants.push(Op::EnforceAdd { batch: b });
                        }
                    }
                }
            }
            for v in variants {
                let mut ops = case.ops.clone();
                ops[i] = v;
                out.push(Case { ops, ..case.clone() });
            }
        }
        if case.auth_every != 0 {
            out.push(Case { auth_every: 0, ..case.clone() });
        }
        if case.hash_seed != 0 {
            out.push(Case { hash_seed: 0, ..case.clone() });
        }
        out
    }
    fn rule(&self) -> &'static str {
        "cases = seeded histories of from_entities/add/upsert/remove/from_proto/from_json/add_json/json round trip/enforce over a pool of 3..10 ids (cycles, diamonds, dangling parents, duplicates), each executed under 1..4 owned hash orders; evaluations = individual comparisons of ancestors()/is_ancestor_of()/`principal in`/enforce verdicts with the reachability model; non-trivial = history with >=1 successful op that changed the ancestor set of an entity not named in the op; distinct by fingerprint of the sequence of model graphs"
    }
    fn real_components(&self) -> Vec<&'static str> {
        vec!["cedar_policy::Entities (from_entities, add_entities, upsert_entities, remove_entities, ancestors, is_ancestor_of, iter, len)", "cedar_policy_core::entities::Entities with TCComputation::EnforceAlreadyComputed", "<Entities as Protobuf>::{encode,decode}", "cedar_policy::Authorizer::is_authorized (eval_in)", "transitive_closure::{compute_tc, repair_tc, enforce_tc_and_dag}"]
    }
    fn simulated_components(&self) -> Vec<&'static str> {
        vec!["hash-map iteration order (getrandom seam, one owned key pair per thread)", "operation scheduler (seeded op lists)", "reference model: parent map + DFS reachability"]
    }
    fn assumptions(&self) -> Vec<&'static str> {
        vec![
            "re-adding an existing uid may be an error or a no-op (the documented outcome depends on structural equality incl. computed ancestors); both are accepted",
            "remove of an id without a record is a no-op (dangling parent links to it stay), as documented by remove_entities",
            "a protobuf entity message's `ancestors` are treated as direct parents by decode (ComputeNow), as the converter does",
            "rejecting a transitively closed acyclic batch under EnforceAlreadyComputed contradicts the documented error conditions and is reported",
        ]
    }
    fn reach_probes(&self) -> Vec<&'static str> {
        vec!["reach.remove_with_alternative_path", "reach.cycle_rejected", "reach.unnamed_entity_closure_changed", "reach.dangling_parent_present", "reach.enforce_rejected_unclosed", "reach.enforce_rejected_cycle"]
    }
}

fn rec_shrinks(batch: &[Rec]) -> Vec<Vec<Rec>> {
    let mut out = vec![];
    for (i, r) in batch.iter().enumerate() {
        for k in 0..r.parents.len() {
            let mut b = batch.to_vec();
            b[i].parents.remove(k);
            out.push(b);
        }
    }
    out
}
