//! World `storagefaults` (C20): durable documents hit by torn / flipped / duplicated / lost bytes
//! and reader/writer faults, then driven through every pipeline (parse -> print / convert /
//! format / validate / authorize / link; or render the error) in crash-isolated worker
//! processes. Oracle: no panic, no death by signal, termination.

use crate::core::*;
use crate::rng::{mix, tag, Rng};
use cedar_policy::ffi;
use cedar_policy::proto::traits::Protobuf;
use cedar_policy::{Authorizer, Context, Entities, Entity, EntityUid, Expression, Policy, PolicyId, PolicySet, Request, RestrictedExpression, Schema, SchemaFragment, SlotId, Template, ValidationMode, Validator};
use cedar_policy_formatter::{policies_str_to_pretty, Config};
use serde::{Deserialize, Serialize};
use serde_json::{json, Value};
use std::collections::HashMap;
use std::io::{Read, Write};
use std::str::FromStr;
use std::sync::OnceLock;

pub const MAX_DEPTH: usize = 48;

#[derive(Clone, Debug)]
pub struct SeedDoc {
    pub name: String,
    pub kind: &'static str,
    pub bytes: Vec<u8>,
}

/// entry points (native kind of a document -> entry point names)
pub const ENTRIES: &[&str] = &[
    "policies_text", "policy_text", "template_text", "expression_text", "restricted_expression_text", "euid_text", "schema_cedar", "schema_json", "entities_json", "entity_json", "context_json", "policy_json", "policyset_json",
    "proto_policyset", "proto_entities", "proto_schema", "proto_template", "proto_expression", "proto_entity", "proto_request", "ffi_is_authorized", "ffi_validate", "ffi_format", "ffi_check_parse_policy_set", "ffi_check_parse_schema",
    "ffi_check_parse_entities", "ffi_check_parse_context", "ffi_format_raw", "reader_entities", "reader_schema_cedar", "reader_schema_json", "reader_policyset_json", "reader_context", "writer_entities",
];

fn native_entries(kind: &str) -> &'static [&'static str] {
    match kind {
        "policies" => &["policies_text", "policies_text", "policy_text", "template_text", "ffi_format"],
        "expression" => &["expression_text", "restricted_expression_text", "euid_text"],
        "schema_cedar" => &["schema_cedar", "schema_cedar", "reader_schema_cedar"],
        "schema_json" => &["schema_json", "schema_json", "reader_schema_json", "ffi_check_parse_schema"],
        "entities_json" => &["entities_json", "entities_json", "reader_entities", "writer_entities"],
        "entity_json" => &["entity_json"],
        "context_json" => &["context_json", "reader_context"],
        "policy_json" => &["policy_json", "policyset_json", "reader_policyset_json"],
        "proto_policyset" => &["proto_policyset"],
        "proto_entities" => &["proto_entities"],
        "proto_schema" => &["proto_schema"],
        "proto_template" => &["proto_template"],
        "proto_expression" => &["proto_expression"],
        "proto_entity" => &["proto_entity"],
        "proto_request" => &["proto_request"],
        "ffi_is_authorized" => &["ffi_is_authorized"],
        "ffi_validate" => &["ffi_validate"],
        "ffi_check_parse_policy_set" => &["ffi_check_parse_policy_set"],
        "ffi_check_parse_entities" => &["ffi_check_parse_entities"],
        "ffi_check_parse_context" => &["ffi_check_parse_context"],
        "ffi_format" => &["ffi_format_raw"],
        _ => &["entities_json", "context_json", "policy_json", "schema_json"],
    }
}

const GENERATED_POLICIES: &[&str] = &[
    r#"permit(principal, action, resource) when { 1 + 2 * 3 - 4 == 3 && -5 < 2 && 2 <= 2 && 3 > 1 && 3 >= 3 && 1 != 2 };"#,
    r#"permit(principal, action, resource) when { !(true || false) && (if true then false else true) || "a" like "a*\*b" };"#,
    r#"forbid(principal == User::"a", action in [Action::"x", Action::"y"], resource in Folder::"f") unless { principal has a.b.c && principal.a.b.c == resource["x y"] };"#,
    r#"permit(principal is User in Group::"g", action == Action::"x", resource is Doc) when { [1, 2, 3].contains(1) && [1].containsAll([1]) && [1].containsAny([2]) && [].isEmpty() };"#,
    r#"permit(principal, action, resource) when { ip("10.0.0.1/24").isInRange(ip("10.0.0.0/8")) && ip("::1").isLoopback() && ip("224.0.0.1").isMulticast() && ip("1.2.3.4").isIpv4() && ip("::2").isIpv6() };"#,
    r#"permit(principal, action, resource) when { decimal("1.2345").lessThan(decimal("2.0")) && decimal("-1.0").greaterThanOrEqual(decimal("-1.0")) && decimal("0.1").lessThanOrEqual(decimal("0.2")) && decimal("3.0").greaterThan(decimal("2.9999")) };"#,
    r#"permit(principal, action, resource) when { datetime("2024-01-01T00:00:00Z").offset(duration("1d2h3m4s5ms")).toDate() < datetime("2025-01-01") && duration("-1h").toMinutes() == -60 && datetime("2024-01-01").durationSince(datetime("2023-01-01")).toDays() > 0 && datetime("2024-01-01T01:02:03.004+0530").toTime().toMilliseconds() >= 0 };"#,
    r#"permit(principal, action, resource) when { 9223372036854775807 + 0 > -9223372036854775808 && 9223372036854775807 * 2 > 0 };"#,
    r#"@id("x") @note("") @x("\u{1F600}\n\t\"\\\0") permit(principal, action, resource) when { "\u{1F600}\x41\'\"\\\n\r\t\0" != "" && resource.s like "*\u{1F600}?\**" };"#,
    r#"permit(principal, action, resource) when { {"a": 1, "b c": {"d": [principal, resource]}, "if": true}.a == 1 && {"if": 1}["if"] == 1 && context.x.y.z has w };"#,
    r#"permit(principal == ?principal, action, resource in ?resource) when { principal.hasTag("k") && principal.getTag("k") == resource.getTag(context.key) };"#,
    r#"permit(principal in ?principal, action, resource is Doc in ?resource);"#,
    r#"forbid(principal, action, resource) when { principal in [User::"a", User::"b"] && resource in principal.folders && action in [Action::"x"] && Action::"x" in Action::"all" };"#,
    r#"permit(principal, action, resource) when { principal has "quoted key" && principal["quoted key"].like == 1 && principal.in.has.is.then.else.true == principal.false };"#,
    r#"// comment only
/* not a comment in cedar */"#,
    r#"permit(principal,action,resource)when{true};permit ( principal , action , resource ) ; forbid(principal, action, resource) unless { false } when { true } unless { 1 == 1 };"#,
    r#"permit(principal, action, resource) when { User::"a\"b\\c\u{0}" == Ns::Deep::Type::"" && A::B::C::f(1) };"#,
    r#"permit(principal, action, resource) when { ip("1.1.1.1").isInRange(ip("1.1.1.0/24"), ip("2.0.0.0/8")) || decimal("1").lessThan(1) || unknownfn(1, 2) || "a".notamethod() };"#,
];

const GENERATED_UNICODE: &[(&str, &str)] = &[
    ("policies", "permit(principal, action, resource) when { resource.name like \"caf\u{e9}*\\*\u{1F600}?\" && principal.\u{e9}t\u{e9} == \"na\u{ef}ve\" };"),
    ("policies", "@note(\"\u{e9}\u{1F600}\") permit(principal == User::\"J\u{fc}rgen \u{1F600}\", action == Action::\"v\u{ef}ew\", resource) when { principal[\"na\u{ef}ve key\"] like \"*\u{e9}\\*\u{e9}*\" };"),
    ("policies", "permit(principal, action == Action::\"v\u{ef}ew\", resource) when { principal.nickn\u{e4}me == resource.n\u{e4}me && context has \"\u{1F600}\" };"),
    ("schema_cedar", "entity User = { \"na\u{ef}ve\": String, name: String, nickname: String }; entity Doc; action \"v\u{ef}ew\", view appliesTo { principal: [User], resource: [Doc], context: { \"\u{1F600}\"?: Long } };"),
    ("entities_json", "[{\"uid\": {\"type\": \"User\", \"id\": \"J\u{fc}rgen \u{1F600}\"}, \"attrs\": {\"na\u{ef}ve\": \"caf\u{e9}\", \"name\": \"\u{1F600}\"}, \"parents\": []}]"),
    ("context_json", "{\"__extn\": {\"fn\": \"ip\", \"arg\": \"10.0.0.1\"}}"),
    ("context_json", "{\"__entity\": {\"type\": \"U\", \"id\": \"a\"}}"),
    ("context_json", "{\"__expr\": \"1 + 1\"}"),
    ("context_json", "[1, {\"a\": 2}]"),
    ("context_json", "\"just a string\""),
    ("context_json", "null"),
    ("entities_json", "{\"uid\": {\"type\": \"U\", \"id\": \"a\"}, \"attrs\": {}, \"parents\": []}"),
    ("entity_json", "[{\"uid\": {\"type\": \"U\", \"id\": \"a\"}, \"attrs\": {}, \"parents\": []}]"),
    ("entity_json", "{\"uid\": {\"__extn\": {\"fn\": \"ip\", \"arg\": \"1.1.1.1\"}}, \"attrs\": {\"__entity\": {\"type\": \"U\", \"id\": \"a\"}}, \"parents\": [{\"__extn\": {\"fn\": \"ip\", \"arg\": \"1.1.1.1\"}}]}"),
    ("schema_json", "{\"\": {\"entityTypes\": {\"U\\u00e9\": {}}, \"actions\": {\"v\\u00efew\": {\"appliesTo\": {\"principalTypes\": [\"U\\u00e9\"], \"resourceTypes\": [\"U\\u00e9\"]}}}}}"),
];

/// unusual-but-plausible documents, one feature each (kind, text)
const GENERATED_ODD: &[(&str, &str)] = &[
    // Cedar schema text
    ("schema_cedar", "namespace N {}"),
    ("schema_cedar", "namespace N:: { entity E; }"),
    ("schema_cedar", "entity E = { a: Long }; entity E = { a: String }; action a appliesTo { principal: [E], resource: [E] };"),
    ("schema_cedar", "entity E enum []; action a appliesTo { principal: [E], resource: [E] };"),
    ("schema_cedar", "entity E enum [\"x\", \"x\", \"\"]; action a appliesTo { principal: [E], resource: [E] };"),
    ("schema_cedar", "entity E; action a appliesTo { principal: [], resource: [E] };"),
    ("schema_cedar", "entity E; action a appliesTo { principal: [E] };"),
    ("schema_cedar", "type A = B; type B = A; entity E = { x: A }; action a appliesTo { principal: [E], resource: [E], context: A };"),
    ("schema_cedar", "type Long = Long; type String = Set<String>; entity E = { a: Long }; action a appliesTo { principal: [E], resource: [E] };"),
    ("schema_cedar", "@a @a(\"\") @b entity E; @doc action \"\" appliesTo { principal: [E], resource: [E] }; action x in [x];"),
    ("schema_cedar", "entity A in [B]; entity B in [A]; action a in [b]; action b in [a];"),
    ("schema_cedar", "namespace A::B::C { entity D in [A::B::C::D, D]; action \"a\" in [A::B::C::Action::\"a\"] appliesTo { principal: D, resource: D, context: {} }; }"),
    ("schema_cedar", "entity E tags Set<Set<E>>; entity F = { r: { s: { t: E } } } tags F; action a appliesTo { principal: [E, F], resource: [E, F], context: { e: E, \"if\": Bool } };"),
    ("schema_cedar", ";"),
    ("schema_cedar", "  ;"),
    ("schema_cedar", "namespace N { ; }"),
    ("schema_cedar", "entity E; action a in [__cedar::Action::\"b\"] appliesTo { principal: [E], resource: [E] };"),
    ("schema_cedar", "namespace __cedar { entity E; } entity F in [__cedar::E] = { x: __cedar::String, y: __cedar::ipaddr }; action a appliesTo { principal: [__cedar::E], resource: [F], context: __cedar::Record };"),
    ("schema_json", r#"{"": {"entityTypes": {"E": {"memberOfTypes": ["__cedar::E"]}}, "actions": {"a": {"memberOf": [{"id": "b", "type": "__cedar::Action"}], "appliesTo": {"principalTypes": ["__cedar::E"], "resourceTypes": ["E"]}}}}, "__cedar": {"entityTypes": {}, "actions": {}}}"#),
    ("policies", "permit(principal, action in [], resource);\npermit(principal, action in [Action::\"a\"], resource) when { principal in [] && [].containsAll([]) && {} == {} };\npermit(principal == ?principal, action in [], resource in ?resource);"),
    ("policies", "permit(principal, action, resource) when { datetime(\"2024-01-01T00:00:00.\u{661}\u{662}\u{663}Z\") < datetime(\"2024-01-01\") };\npermit(principal, action, resource) when { datetime(\"2024-01-01T00:00:00+\u{ff10}\u{ff11}\u{ff10}\u{ff10}\") < datetime(\"2024-01-01\") };\npermit(principal, action, resource) when { decimal(\"\u{661}.\u{662}\").lessThan(decimal(\"1.0\")) };\npermit(principal, action, resource) when { ip(\"\u{661}.1.1.1/\u{663}\").isIpv4() };\npermit(principal, action, resource) when { duration(\"\u{661}h\u{ff12}m\").toSeconds() > 0 };\npermit(principal, action, resource) when { datetime(\"\u{662}\u{660}24-01-01\") < datetime(\"2024-\u{ff10}1-01T\u{661}0:00:00Z\") };"),
    ("context_json", "{\"d\": {\"__extn\": {\"fn\": \"datetime\", \"arg\": \"2024-01-01T00:00:00.\u{661}\u{662}\u{663}Z\"}}, \"e\": {\"__extn\": {\"fn\": \"decimal\", \"arg\": \"\u{661}.\u{662}\"}}, \"f\": {\"__extn\": {\"fn\": \"duration\", \"arg\": \"\u{ff11}h\"}}, \"g\": {\"__extn\": {\"fn\": \"ip\", \"arg\": \"\u{661}.2.3.4\"}}}"),
    // schema JSON
    ("schema_json", r#"{"": {"entityTypes": {"E": {"shape": {"type": "Set"}}}, "actions": {}}}"#),
    ("schema_json", r#"{"": {"entityTypes": {"E": {"shape": {"type": "Record", "attributes": []}}}, "actions": {}}}"#),
    ("schema_json", r#"{"": {"entityTypes": {"E": {"memberOfTypes": ["", "::", "E::"]}}, "actions": {"a": {"memberOf": [{"id": "a"}], "appliesTo": {"principalTypes": [], "resourceTypes": ["E"]}}}}}"#),
    ("schema_json", r#"{"": {"entityTypes": {"E": {"shape": {"type": "Record", "attributes": {"x": {"type": "Extension", "name": "nosuch"}, "y": {"type": "Entity", "name": ""}, "z": {"type": "Set", "element": {"type": "Set", "element": {"type": "Long"}}}}}}}, "actions": {"a": {"appliesTo": {"principalTypes": ["E"], "resourceTypes": ["E"], "context": {"type": "Long"}}}}}}"#),
    ("schema_json", r#"{"A::": {"entityTypes": {}, "actions": {}}, "": {"commonTypes": {"Long": {"type": "String"}, "T": {"type": "T"}}, "entityTypes": {"E": {"enum": []}}, "actions": {}}}"#),
    // entities / context JSON
    ("entities_json", r#"[{"uid": {"type": "U", "id": "a"}, "attrs": {"x": {"__extn": {"fn": "isInRange", "arg": "1.1.1.1"}}, "y": {"__extn": {"fn": "ip", "args": []}}, "z": {"__extn": {"fn": "decimal", "args": ["1.0", "2.0"]}}}, "parents": []}]"#),
    ("entities_json", r#"[{"uid": {"type": "", "id": "a"}, "attrs": {}, "parents": [1, "x", {"type": "A::", "id": ""}]}, {"uid": {"type": "A::B::", "id": "b"}, "attrs": {}, "parents": [], "tags": []}]"#),
    ("entities_json", r#"[{"uid": {"type": "U", "id": "a"}, "attrs": {"big": 1e400, "over": 9223372036854775808, "negz": -0.0, "frac": 1.5, "dup": 1, "dup": 2, "sur": "\ud800", "k\ud800": 1}, "parents": []}]"#),
    ("context_json", r#"{"a": 1e400, "b": 9223372036854775808, "c": -0.0, "d": {"__extn": {"fn": "duration", "arg": "9223372036854775807ms1ms"}}, "e": {"__extn": {"fn": "datetime", "arg": "9999-12-31T23:59:59.999+2359"}}, "f": {"__extn": {"fn": "ip", "arg": "1.1.1.1/33"}}, "g": {"__extn": {"fn": "decimal", "arg": "-922337203685477.5808"}}}"#),
    ("context_json", "{\"a\": 1, \"a\": 2, \"\\ud800\": 3, \"\": {\"\": {\"\": null}}}"),
    // policy text
    ("policies", "@a @b(\"x\")"),
    ("policies", "@a(\"1\") @a(\"2\") @id(\"\") permit(principal, action, resource);"),
    ("policies", "permit(principal, action, resource) when { principal == ?principal && resource in ?resource };"),
    ("policies", "permit(principal, action, resource) when { \"\\u{110000}\" == \"\\u{}\" || \"\\u{D800}\" == \"\\x80\" };"),
    ("policies", "permit(principal == User::\"a\\0b\", action, resource) when { User::\"\\0\" == principal };"),
    ("policies", "permit(principal, action, resource) when { decimal(\"-922337203685477.5808\").lessThan(decimal(\"922337203685477.5807\")) && duration(\"9223372036854775807ms1ms\").toDays() > 0 || datetime(\"9999-12-31T23:59:59.999+2359\").offset(duration(\"-9223372036854775808ms\")) < datetime(\"0000-01-01\") || ip(\"1.1.1.1/33\").isLoopback() || ip(\"::/129\").isMulticast() };"),
    ("policies", "permit(principal, action, resource) when { datetime(\"2024-02-30\").toDate() == datetime(\"2024-01-01T25:00:00Z\") || duration(\"1d1d\").toSeconds() == 0 || duration(\"-\").toHours() == 0 || decimal(\"1.\").lessThan(decimal(\".1\")) || ip(\"256.0.0.1\").isIpv4() || ip(\"::ffff:1.2.3.4\").isIpv6() };"),
    ("policies", "permit(principal, action, resource) when { -9223372036854775808 - 1 < 0 || 9223372036854775807 * 9223372036854775807 > 0 || -(-9223372036854775808) > 0 || 0 * -9223372036854775808 == 0 };"),
    ("policies", ";"),
    ("policies", "permit(principal, action, resource);;permit(principal,action,resource)"),
    ("policies", "// only a comment, no trailing newline"),
    ("policies", "@a(\"x\")\n// comment between annotation and effect\npermit // c1\n( // c2\nprincipal, // c3\naction, resource) // c4\nwhen // c5\n{ true // c6\n} // c7\n; // c8"),
    ("policies", "permit(principal, action, resource)\r\nwhen {\r\n\ttrue // crlf\r\n};\r\n"),
    ("policies", "permit(principal, action, resource) when { if true then 1 };"),
    // policy-set documents whose parts refer to each other inconsistently: a link that names a static policy,
    // a slot-less entry under "templates" with a link, a link whose new id is taken, a link naming itself
    ("policy_json", r#"{"staticPolicies": {"s": {"effect": "permit", "principal": {"op": "All"}, "action": {"op": "All"}, "resource": {"op": "All"}, "conditions": []}}, "templates": {}, "templateLinks": [{"templateId": "s", "newId": "L", "values": {}}]}"#),
    ("policy_json", r#"{"staticPolicies": {}, "templates": {"t": {"effect": "permit", "principal": {"op": "All"}, "action": {"op": "All"}, "resource": {"op": "All"}, "conditions": []}}, "templateLinks": [{"templateId": "t", "newId": "L", "values": {}}]}"#),
    ("policy_json", r#"{"staticPolicies": {"s": {"effect": "permit", "principal": {"op": "All"}, "action": {"op": "All"}, "resource": {"op": "All"}, "conditions": []}}, "templates": {"t": {"effect": "forbid", "principal": {"op": "in", "slot": "?principal"}, "action": {"op": "All"}, "resource": {"op": "==", "slot": "?resource"}, "conditions": []}}, "templateLinks": [{"templateId": "t", "newId": "s", "values": {"?principal": {"type": "U", "id": "a"}, "?resource": {"type": "U", "id": "b"}}}, {"templateId": "L", "newId": "L", "values": {}}, {"templateId": "t", "newId": "t", "values": {"?principal": {"type": "U", "id": "a"}}}]}"#),
    ("ffi_format", r#"{"policyText": "permit(principal, action, resource) when { principal.a && [1, 2, 3].contains(1) };", "lineWidth": 1, "indentWidth": 3}"#),
    ("ffi_format", r#"{"policyText": "// c
permit(principal, action, resource);", "lineWidth": 0, "indentWidth": -5}"#),
    ("ffi_format", r#"{"policyText": "permit(principal, action, resource);", "lineWidth": 18446744073709551615, "indentWidth": 0}"#),
    ("policies", "permit(principal, // who\r// really who\naction, resource);"),
    ("policies", "permit(principal, action, resource) // a\r\x0c// b\x0b\n when { true /* c \r */ } ; // \u{85} \u{2028} end\r"),
    ("policies", "\u{feff}permit(principal, action, resource);\t// bom and tab\n\n\n"),
    ("policies", "permit(principal, action, resource) when { [ip(\"1.2.3.4\"), decimal(\"1.0\")].contains(ip(\"1.2.3.4\")) };\npermit(principal, action, resource) when { [datetime(\"2024-01-01\"), duration(\"1d\"), ip(\"::1\"), decimal(\"0.1\")].containsAll([duration(\"1d\"), decimal(\"0.1\")]) };\npermit(principal, action, resource) when { [decimal(\"1.0\"), 1, \"1\", ip(\"1.1.1.1\"), principal, {\"a\": ip(\"1.1.1.1\")}, [duration(\"1s\")]].contains([duration(\"1s\")]) };"),
    ("entities_json", r#"[{"uid": {"type": "U", "id": "a"}, "attrs": {"s": [{"__extn": {"fn": "decimal", "arg": "1.0"}}, {"__extn": {"fn": "ip", "arg": "1.2.3.4"}}, {"__extn": {"fn": "datetime", "arg": "2024-01-01"}}, {"__extn": {"fn": "duration", "arg": "1h"}}], "u": {"__extn": {"fn": "unknown", "arg": "u"}}}, "parents": []}]"#),
    ("context_json", r#"{"s": [{"__extn": {"fn": "duration", "arg": "1h"}}, {"__extn": {"fn": "decimal", "arg": "1.0"}}], "u": {"__extn": {"fn": "unknown", "arg": "u"}}}"#),
    ("schema_json", r#"{"": {"entityTypes": {"E": {"memberOfTypes": []}}, "actions": {"a": {"memberOf": [], "appliesTo": {"principalTypes": ["E"], "resourceTypes": ["E"], "context": {"type": "Record", "attributes": {}}}}, "b": {"memberOf": [{"id": "a"}], "appliesTo": {"principalTypes": [], "resourceTypes": []}}}}}"#),
    // JSON policies (EST)
    ("policy_json", r#"{"effect": "permit", "principal": {"op": "All"}, "action": {"op": "All"}, "resource": {"op": "All"}, "conditions": [{"kind": "when", "body": {"if-then-else": {"if": {"Value": true}, "then": {"Value": 1}}}}]}"#),
    ("policy_json", r#"{"effect": "permit", "principal": {"op": "All"}, "action": {"op": "All"}, "resource": {"op": "All"}, "conditions": [{"kind": "when", "body": {"like": {"left": {"Value": "x"}, "pattern": ["Wildcard", {"Literal": ""}, {"Other": 1}, "wildcard"]}}}]}"#),
    ("policy_json", r#"{"effect": "permit", "principal": {"op": "is", "entity_type": "U", "in": {"slot": "?principal"}}, "action": {"op": "in", "entities": []}, "resource": {"op": "==", "slot": "?principal"}, "conditions": {"kind": "when"}}"#),
    ("policy_json", r#"{"effect": "permit", "principal": {"op": "All"}, "action": {"op": "All"}, "resource": {"op": "All"}, "conditions": [{"kind": "when", "body": {"Record": {"if": {"Value": 1}, "__entity": {"Value": 2}, "": {"Unknown": {"name": ""}}}}}, {"kind": "when", "body": {"Slot": "?resource"}}, {"kind": "when", "body": {"decimal": []}}, {"kind": "when", "body": {"lessThan": [{"Value": 1}]}}, {"kind": "when", "body": {"nosuchfn": [{"Value": 1}]}}]}"#),
];

/// one evaluator corner case per policy, so that each is evaluated on its own (no short-circuit
/// by a neighbour); all of them are decided by literals only
const GENERATED_EVAL: &[&str] = &[
    r#"[].containsAll([{"a": 1}]) || [{"a": 1}].containsAll([]) || [].containsAny([{}]) || [{}, {}].contains({})"#,
    r#"{"a": 1} == [1] || [1] == {"a": 1} || {} == [] || [[]] == [{}]"#,
    r#"{"a": 1, "b": {"a": 2}}.b.a == 2 && {"a": {"a": {"a": 1}}}.a.a has a && {"if": 1}["if"] == 1"#,
    r#""" like "***" && "" like "" && "a" like "*?*" || "\*" like "\*" || "*" like "\**""#,
    r#"ip("0.0.0.0/0").isInRange(ip("0.0.0.0/0")) && ip("::/0").isInRange(ip("0.0.0.0/0")) || ip("1.2.3.4").isInRange(ip("::/0")) || ip("255.255.255.255/32").isInRange(ip("255.255.255.255/0"))"#,
    r#"decimal("-922337203685477.5808").lessThan(decimal("922337203685477.5807")) && decimal("-922337203685477.5808").greaterThanOrEqual(decimal("-922337203685477.5808")) && decimal("0.0000") == decimal("-0.0")"#,
    r#"datetime("0000-01-01").toDate() <= datetime("1969-12-31T23:59:59.999Z").toDate() && datetime("1969-12-31T23:59:59.999Z").toTime() > duration("0ms") && datetime("1970-01-01").durationSince(datetime("9999-12-31")).toMilliseconds() < 0"#,
    r#"datetime("9999-12-31").offset(duration("9223372036854775807ms")) > datetime("1970-01-01") || datetime("0000-01-01").offset(duration("-9223372036854775808ms")) < datetime("1970-01-01")"#,
    r#"duration("-9223372036854775808ms").toDays() < 0 && duration("9223372036854775807ms").toSeconds() > 0 && duration("0ms") == duration("-0d") && duration("1d").toHours() == 24"#,
    r#"-(-9223372036854775808) > 0 || 0 - (-9223372036854775808) > 0 || -9223372036854775808 * -1 > 0 || 9223372036854775807 + 1 > 0"#,
    r#"[if 1 then 2 else 3, if true then 2 else 3].contains(2) || [1 + "a"].isEmpty() || [!1].contains(true)"#,
    r#"[1, 1, 1, 2, 2].containsAll([2, 1, 1]) && [1, [1], [[1]], {"a": [1]}].contains([[1]]) && [ip("1.1.1.1"), ip("1.1.1.1/32")].contains(ip("1.1.1.1"))"#,
    r#"principal in [principal, resource] && principal in [] || [principal].contains(principal) && [] == [] && [[], []].containsAll([[]])"#,
    r#"principal has "" || principal[""] == 1 || {"": 1}[""] == 1 || context has "" || principal.hasTag("") && principal.getTag("") == """#,
    r#"(if principal == resource then principal else resource) in (if true then [principal] else resource) || (if true then 1 else principal) < 2"#,
    r#"User::"a" is User && User::"a" is Ns::User || Action::"x" is Action && principal is User in User::"a" && principal is User in [User::"a", Group::"g"]"#,
    r#"ip("1.1.1.1") < ip("2.2.2.2") || decimal("1.0") < decimal("2.0") || "a" < "b" || true < false || [1] < [2]"#,
    r#"datetime("2024-01-01") < duration("1d") || duration("1d") <= datetime("2024-01-01") || datetime("2024-01-01") == duration("0ms")"#,
];

/// a synthetic bundle: one rich schema, matching entities, and policies written against them, so that
/// the validator (strict, permissive, levels) and the evaluator see well-typed and nearly well-typed
/// programs over real data
const VAL_SCHEMA: &str = r#"
namespace Org {
  type Address = { street: String, zip?: Long, geo?: { lat: decimal, ip: ipaddr } };
  entity Team in [Team] = { lead?: Person, budget: Long };
  entity Person in [Team] = { addr: Address, boss?: Person, kind: Kind, peers: Set<Person>, since: datetime, ttl: duration, rec: {} } tags Set<String>;
  entity Kind enum ["staff", "guest"];
  entity Plain;
  action base;
  action read in [base] appliesTo { principal: [Person], resource: [Person, Team], context: { addr?: Address, via?: Person, ips: Set<ipaddr> } };
  action "write all" in [read] appliesTo { principal: [Person], resource: [Team], context: {} };
}
entity Top in [Org::Team];
action top appliesTo { principal: [Top, Org::Person], resource: [Top], context: { "if": Bool } };
"#;
const VAL_ENTITIES: &str = r#"[
 {"uid": {"type": "Org::Team", "id": "t0"}, "attrs": {"budget": 10, "lead": {"__entity": {"type": "Org::Person", "id": "ann"}}}, "parents": [{"type": "Org::Team", "id": "t1"}]},
 {"uid": {"type": "Org::Team", "id": "t1"}, "attrs": {"budget": -9223372036854775808}, "parents": []},
 {"uid": {"type": "Org::Person", "id": "ann"}, "attrs": {"addr": {"street": "a", "zip": 1, "geo": {"lat": {"__extn": {"fn": "decimal", "arg": "1.5"}}, "ip": {"__extn": {"fn": "ip", "arg": "10.0.0.1/8"}}}}, "boss": {"__entity": {"type": "Org::Person", "id": "bob"}}, "kind": {"__entity": {"type": "Org::Kind", "id": "staff"}}, "peers": [{"__entity": {"type": "Org::Person", "id": "bob"}}, {"__entity": {"type": "Org::Person", "id": "ghost"}}], "since": {"__extn": {"fn": "datetime", "arg": "2020-01-01"}}, "ttl": {"__extn": {"fn": "duration", "arg": "1d"}}, "rec": {}}, "parents": [{"type": "Org::Team", "id": "t0"}], "tags": {"k": ["a", "b"], "": []}},
 {"uid": {"type": "Org::Person", "id": "bob"}, "attrs": {"addr": {"street": ""}, "kind": {"__entity": {"type": "Org::Kind", "id": "guest"}}, "peers": [], "since": {"__extn": {"fn": "datetime", "arg": "1969-12-31T23:59:59.999Z"}}, "ttl": {"__extn": {"fn": "duration", "arg": "-1ms"}}, "rec": {}}, "parents": []},
 {"uid": {"type": "Top", "id": "x"}, "attrs": {}, "parents": [{"type": "Org::Team", "id": "t0"}]}
]"#;
const VAL_POLICIES: &[&str] = &[
    r#"permit(principal, action == Org::Action::"read", resource) when { principal.addr.zip > 0 };"#,
    r#"permit(principal, action == Org::Action::"read", resource) when { principal.addr has zip && principal.addr.zip > 0 && principal.addr has geo.ip && principal.addr.geo.ip.isInRange(ip("10.0.0.0/8")) };"#,
    r#"permit(principal, action in [Org::Action::"base"], resource) when { principal has boss && principal.boss has boss && principal.boss.boss.kind == Org::Kind::"staff" };"#,
    r#"forbid(principal is Org::Person in Org::Team::"t1", action, resource is Org::Team) when { resource.budget - 1 < 0 || resource has lead && resource.lead.peers.contains(principal) };"#,
    r#"permit(principal, action == Org::Action::"base", resource);"#,
    r#"permit(principal, action == Org::Action::"write all", resource) when { principal.hasTag("k") && principal.getTag("k").contains("a") && principal.getTag("").isEmpty() };"#,
    r#"permit(principal, action, resource) when { principal is Person || resource is Org::Plain || principal is Top in Org::Team::"t0" };"#,
    r#"permit(principal == Org::Person::"ann", action == Action::"top", resource == Top::"x") when { context["if"] && context has "if" };"#,
    r#"permit(principal, action == Org::Action::"read", resource) when { context.ips.containsAny([ip("1.1.1.1"), principal.addr.geo.ip]) || context has via && context.via.peers.containsAll(principal.peers) };"#,
    r#"permit(principal, action == Org::Action::"read", resource) when { principal.since.offset(principal.ttl) < datetime("2020-01-03") && principal.since.durationSince(principal.boss.since).toDays() > 0 && principal.since.toTime() == duration("0ms") };"#,
    r#"permit(principal, action == Org::Action::"read", resource) when { principal.rec == {} && principal.rec has a || {} == principal.rec && principal.kind in [Org::Kind::"staff"] };"#,
    r#"permit(principal, action == Org::Action::"read", resource) when { principal.kind == Org::Kind::"nosuch" || Org::Kind::"staff" in Org::Team::"t0" };"#,
    r#"permit(principal, action == Org::Action::"read", resource) when { principal.hasTag("k") && resource.hasTag("k") && principal.getTag(resource.addr.street) == resource.getTag("k") };"#,
    r#"permit(principal, action == Org::Action::"read", resource) when { principal.adr.zipp == 1 || principal.addr.zipcode == 2 || principal.bos.kind == Org::Kind::"staff" };"#,
    r#"permit(principal, action == Org::Action::"read", resource) when { principal in resource && resource in principal.boss && [principal, resource] == [resource] };"#,
    r#"permit(principal == ?principal, action == Org::Action::"read", resource in ?resource) when { principal.addr.street like "*a*" };"#,
    r#"permit(principal, action == Org::Action::"read", resource) when { principal.addr.geo.lat.lessThan(decimal("2.0")) && ip(principal.addr.street).isLoopback() && decimal(principal.addr.street) == decimal("1.0") };"#,
    r#"forbid(principal, action == Org::Action::"read", resource) unless { (if principal has boss then principal.boss else principal).peers.isEmpty() };"#,
    // scope / action-application mismatches (each produces a different diagnostic with help text)
    r#"permit(principal, action == Org::Action::"write all", resource == Org::Person::"ann");"#,
    r#"permit(principal == Top::"x", action == Org::Action::"read", resource);"#,
    r#"permit(principal == Org::Team::"t0", action == Org::Action::"read", resource == Org::Plain::"p");"#,
    r#"permit(principal in Org::Kind::"staff", action in [Org::Action::"read", Action::"top"], resource in Top::"x");"#,
    r#"permit(principal is Org::Plain, action, resource is Org::Kind);"#,
    r#"permit(principal, action == Org::Action::"nosuch", resource) when { resource.nope };"#,
    r#"permit(principal, action in [Org::Action::"base"], resource is Top in Org::Team::"t0") when { principal.kind.x || principal.peers.y || context.z };"#,
    // `==` against an ancestor type of an applicable type, in the resource clause only, the principal clause only, and both
    r#"permit(principal, action == Action::"top", resource == Org::Team::"t0");"#,
    r#"permit(principal == Org::Team::"t0", action == Action::"top", resource);"#,
    r#"permit(principal == Org::Team::"t0", action == Action::"top", resource == Org::Team::"t1");"#,
    r#"permit(principal == Org::Person::"ann", action == Org::Action::"write all", resource == Org::Team::"t0") when { resource.lead.addr.geo.lat.greaterThan(decimal("1.0")) && principal.boss.boss.boss.addr.zip == context.nope };"#,
];

/// a second synthetic bundle: record-typed and set-typed tags, entities that do and do not fit them
const TAGS_SCHEMA: &str = "entity User tags { a: Long, b?: Set<{ c: String }> };\nentity Group tags Set<{ a: Long }>;\nentity Plain;\naction view appliesTo { principal: [User], resource: [Group, Plain], context: { r: { a: Long }, s: Set<{ a: Long }> } };";
const TAGS_ENTITIES: &[&str] = &[
    r#"[{"uid": {"type": "User", "id": "a"}, "attrs": {}, "parents": [], "tags": {"k": {"a": 1}, "l": {"a": 2, "b": [{"c": "x"}]}}}, {"uid": {"type": "Group", "id": "g"}, "attrs": {}, "parents": [], "tags": {"k": [{"a": 1}, {"a": 2}]}}]"#,
    r#"[{"uid": {"type": "User", "id": "a"}, "attrs": {}, "parents": [], "tags": {"k": 5, "l": "x", "m": [1], "n": null, "o": {"a": "s"}}}]"#,
    r#"[{"uid": {"type": "Group", "id": "g"}, "attrs": {}, "parents": [], "tags": {"k": [{"a": 1}, "oops"], "l": {"a": 1}, "m": [[{"a": 1}]], "n": [5]}}]"#,
    r#"[{"uid": {"type": "Plain", "id": "p"}, "attrs": {}, "parents": [], "tags": {"k": 1}}, {"uid": {"type": "User", "id": "b"}, "attrs": {"x": 1}, "parents": [{"type": "Plain", "id": "p"}], "tags": {}}]"#,
];
const TAGS_CONTEXTS: &[&str] = &[r#"{"r": {"a": 1}, "s": [{"a": 1}]}"#, r#"{"r": 5, "s": [{"a": 1}, "oops"]}"#, r#"{"r": [], "s": {"a": 1}}"#];

const GENERATED_EXPRS: &[&str] = &["1 + 2", "principal.a.b has c", r#"User::"a""#, r#"[1, "a", {"k": User::"b"}]"#, r#"ip("1.2.3.4")"#, r#"if context.x then principal else resource"#, r#"-9223372036854775808"#, r#"--1"#, r#""\u{10FFFF}" like "*""#, r#"a::b::"c""#];

const GENERATED_SCHEMAS: &[&str] = &[
    r#"namespace N { type T = { a: Long, b?: Set<String>, c: { d: Bool } }; entity E in [E, F] = T tags Set<Long>; entity F enum ["x", "y"]; action "a b" in [A] appliesTo { principal: [E], resource: [E, F], context: T }; action A; }
entity U; @doc("x") action v appliesTo { principal: U, resource: U };"#,
    r#"type Long = String; entity A = { x: __cedar::Long, y: Long, z: ipaddr, w: decimal, d: datetime, u: duration }; action a appliesTo { principal: [A], resource: [A], context: {} };"#,
    r#"entity "#,
];

const GENERATED_JSON: &[(&str, &str)] = &[
    ("entities_json", r#"[{"uid": {"type": "U", "id": "a"}, "attrs": {"x": {"__extn": {"fn": "ip", "arg": "1.2.3.4"}}, "y": {"__entity": {"type": "U", "id": "b"}}, "z": [1, "s", true, {"k": null}], "w": {"__extn": {"fn": "decimal", "arg": "1.0"}}, "big": 9223372036854775807, "neg": -9223372036854775808}, "parents": [{"type": "U", "id": "b"}], "tags": {"t": "v"}}, {"uid": {"__entity": {"type": "U", "id": "b"}}, "attrs": {}, "parents": []}]"#),
    ("entities_json", r#"[{"uid": {"type": "U", "id": "a"}, "attrs": {}, "parents": [{"type": "U", "id": "a"}]}]"#),
    ("entities_json", r#"[{"uid": {"type": "U", "id": "a"}, "attrs": {"__entity": 1, "__extn": 2, "__expr": "principal"}, "parents": []}, {"uid": {"type": "U", "id": "a"}, "attrs": {}, "parents": []}]"#),
    ("context_json", r#"{"a": 1, "b": {"__entity": {"type": "U", "id": "x"}}, "c": {"__extn": {"fn": "datetime", "arg": "2024-01-01"}}, "d": [[[[[[1]]]]]], "e": "😀"}"#),
    ("entity_json", r#"{"uid": {"type": "N::U", "id": "a\u0000b"}, "attrs": {"r": {"k": {"k": {"k": {}}}}}, "parents": [], "tags": {}}"#),
    ("policy_json", r#"{"effect": "permit", "principal": {"op": "==", "entity": {"type": "U", "id": "a"}}, "action": {"op": "in", "entities": [{"type": "Action", "id": "x"}]}, "resource": {"op": "is", "entity_type": "D", "in": {"slot": "?resource"}}, "conditions": [{"kind": "when", "body": {"&&": {"left": {"has": {"left": {"Var": "principal"}, "attr": "a"}}, "right": {"like": {"left": {"Value": "x"}, "pattern": ["Wildcard", {"Literal": "y"}]}}}}}, {"kind": "unless", "body": {"if-then-else": {"if": {"Value": true}, "then": {"Set": [{"Value": 1}]}, "else": {"Record": {"k": {"ip": [{"Value": "1.2.3.4"}]}}}}}}], "annotations": {"id": "x"}}"#),
    ("policy_json", r#"{"staticPolicies": {"p": {"effect": "forbid", "principal": {"op": "All"}, "action": {"op": "All"}, "resource": {"op": "All"}, "conditions": []}}, "templates": {"t": {"effect": "permit", "principal": {"op": "==", "slot": "?principal"}, "action": {"op": "All"}, "resource": {"op": "All"}, "conditions": []}}, "templateLinks": [{"templateId": "t", "newId": "l", "values": {"?principal": {"type": "U", "id": "a"}}}]}"#),
    ("policy_json", r#"{"effect": "permit", "principal": {"op": "All"}, "action": {"op": "All"}, "resource": {"op": "All"}, "conditions": [{"kind": "when", "body": {"&&": {"left": {"isIpv4": [{"ip": [{"Value": "1.2.3.4"}]}]}, "right": {"lessThan": [{"decimal": [{"Value": "1.0"}]}, {"decimal": [{"Value": "2.0"}]}]}}}}, {"kind": "when", "body": {"isInRange": [{"Value": {"__extn": {"fn": "ip", "arg": "10.0.0.1"}}}, {"Value": {"__extn": {"fn": "ip", "arg": "10.0.0.0/8"}}}]}}]}"#),
    ("policy_json", r#"{"effect": "forbid", "principal": {"op": "All"}, "action": {"op": "All"}, "resource": {"op": "All"}, "conditions": [{"kind": "unless", "body": {"==": {"left": {"Value": {"__extn": {"fn": "isIpv4", "args": [{"__extn": {"fn": "ip", "arg": "1.2.3.4"}}]}}}, "right": {"Value": {"__extn": {"fn": "offset", "args": [{"__extn": {"fn": "datetime", "arg": "2024-01-01"}}, {"__extn": {"fn": "duration", "arg": "1h"}}]}}}}}}, {"kind": "when", "body": {"contains": {"left": {"Value": [{"__entity": {"type": "U", "id": "a"}}, {"k": {"__expr": "1 + 1"}}, [1, [2, [3]]]]}, "right": {"Value": {"r": {"__extn": {"fn": "decimal", "arg": "0.5"}}}}}}}]}"#),
    ("policy_json", r#"{"effect": "permit", "principal": {"op": "in", "slot": "?principal"}, "action": {"op": "==", "entity": {"type": "Action", "id": "a"}}, "resource": {"op": "is", "entity_type": "N::D"}, "conditions": [{"kind": "when", "body": {"hasTag": {"left": {"Var": "resource"}, "right": {"Value": "k"}}}}, {"kind": "when", "body": {"getTag": {"left": {"Var": "resource"}, "right": {"Value": "k"}}}}, {"kind": "when", "body": {"is": {"left": {"Var": "principal"}, "entity_type": "U", "in": {"Value": {"__entity": {"type": "G", "id": "g"}}}}}}, {"kind": "when", "body": {"neg": {"arg": {"*": {"left": {"Value": 2}, "right": {"-": {"left": {"Value": 1}, "right": {"Unknown": {"name": "u"}}}}}}}}}, {"kind": "when", "body": {".": {"left": {"Record": {"a": {"!": {"arg": {"Value": false}}}}}, "attr": "a"}}}, {"kind": "when", "body": {"isEmpty": {"arg": {"Set": []}}}}]}"#),
    ("schema_json", r#"{"N": {"commonTypes": {"T": {"type": "Record", "attributes": {"a": {"type": "Long"}, "b": {"type": "Set", "element": {"type": "EntityOrCommon", "name": "E"}, "required": false}}}}, "entityTypes": {"E": {"memberOfTypes": ["E"], "shape": {"type": "T"}, "tags": {"type": "String"}}, "F": {"enum": ["x"]}}, "actions": {"a": {"memberOf": [{"id": "b"}], "appliesTo": {"principalTypes": ["E"], "resourceTypes": ["F"], "context": {"type": "T"}}}, "b": {}}}}"#),
];

fn nested(depth: usize) -> Vec<(&'static str, String)> {
    let mut out = vec![];
    let d = depth;
    out.push(("policies", format!("permit(principal, action, resource) when {{ {}1{} == 1 }};", "(".repeat(d), ")".repeat(d))));
    out.push(("policies", format!("permit(principal, action, resource) when {{ {}true }};", "!".repeat(d))));
    out.push(("policies", format!("permit(principal, action, resource) when {{ {}1 == 1 }};", "-".repeat(d))));
    out.push(("policies", format!("permit(principal, action, resource) when {{ {}[]{}.isEmpty() }};", "[".repeat(d), "]".repeat(d))));
    out.push(("policies", format!("permit(principal, action, resource) when {{ principal{} has z }};", ".a".repeat(d))));
    out.push(("policies", format!("permit(principal, action, resource) when {{ principal has {} }};", vec!["a"; d].join("."))));
    out.push(("policies", format!("permit(principal, action, resource) when {{ {} true {} }};", "if true then ".repeat(d / 2), " else false".repeat(d / 2))));
    out.push(("policies", format!("permit(principal, action, resource) when {{ {} }};", vec!["true"; d].join(" && "))));
    out.push(("policies", format!("permit(principal, action, resource) when {{ {}1{} == 1 }};", "{\"a\": ".repeat(d), "}".repeat(d))));
    // (the chain of length 48 is a designated time-limited case; a shorter one is an ordinary seed)
    out.push(("policies", format!("permit(principal, action, resource) when {{ {} true }};", "if context.n > 0 then false else ".repeat(d.min(16)))));
    // `is .. in` and extended `has` share their left operand when desugared; kept shallow here
    // (deep ones are the designated time-limited cases, see `designated_slow`)
    let dd = d.min(6);
    out.push(("policies", format!("permit(principal, action, resource) when {{ {}principal{} }};", "(".repeat(dd), " is User in resource)".repeat(dd))));
    out.push(("policies", format!("permit(principal, action, resource) when {{ {}principal{} }};", "(".repeat(dd), " has a.b)".repeat(dd))));
    out.push(("expression", format!("{}1{}", "(".repeat(d), ")".repeat(d))));
    out.push(("context_json", format!("{{\"a\": {}1{}}}", "[".repeat(d), "]".repeat(d))));
    out.push(("context_json", format!("{}{{}}{}", "{\"a\": ".repeat(d), "}".repeat(d))));
    out.push(("schema_cedar", format!("entity E = {{ a: {}Long{} }};", "Set<".repeat(d.min(30)), ">".repeat(d.min(30)))));
    out.push(("schema_cedar", format!("entity E = {}{{}}{};", "{ a: ".repeat(d.min(30)), " }".repeat(d.min(30)))));
    out
}

/// documents of the corpus that belong together (same directory): the entities, schema and a few
/// requests that match a policy file, so that faulted policies are evaluated against real data
pub struct Bundle {
    pub entities: Entities,
    pub schema: Option<Schema>,
    pub requests: Vec<Request>,
}

fn bundle_key(name: &str) -> String {
    match name.rfind("__") {
        Some(i) => name[..i].to_string(),
        None => name.to_string(),
    }
}

pub struct Pools {
    pub bundles: std::collections::BTreeMap<String, Bundle>,
    pub seeds: Vec<SeedDoc>,
    /// (seed index, kind of exhaustive fault, position) enumerated for the quick tier
    pub exhaustive: Vec<(u32, u8, u32)>,
    /// the subset enumerated by the quick tier (every truncation point for documents of at most 1 KiB
    /// and for the generated ones, every third one for the larger sample documents, every fourth one
    /// and 16 bytes of bit flips for FFI envelopes, 40 bytes of bit flips for protobuf encodings)
    pub exhaustive_quick: Vec<(u32, u8, u32)>,
    pub schemas: Vec<Schema>,
    pub requests: Vec<Request>,
    pub entities: Entities,
}

fn kind_of_file(name: &str) -> &'static str {
    if name.ends_with(".cedar") {
        "policies"
    } else if name.ends_with(".cedarschema") {
        "schema_cedar"
    } else if name.ends_with(".cedarschema.json") || name.contains("schema") {
        "schema_json"
    } else if name.ends_with(".cedar.json") {
        "policy_json"
    } else if name.contains("entities") {
        "entities_json"
    } else if name.contains("entity") {
        "entity_or_entities_json"
    } else if name.contains("context") {
        "context_json"
    } else {
        "other_json"
    }
}

pub fn pools() -> &'static Pools {
    static P: OnceLock<Pools> = OnceLock::new();
    P.get_or_init(|| {
        let dir = format!("{}/sim/corpus", std::env::var("VERIF_DIR").unwrap_or_else(|_| "/verif".into()));
        let mut names: Vec<String> = std::fs::read_dir(&dir).map(|d| d.filter_map(|e| e.ok()).map(|e| e.file_name().to_string_lossy().to_string()).collect()).unwrap_or_default();
        names.sort();
        let mut seeds: Vec<SeedDoc> = vec![];
        for n in names {
            if let Ok(b) = std::fs::read(format!("{dir}/{n}")) {
                let mut k = kind_of_file(&n);
                if k == "entity_or_entities_json" {
                    k = if b.iter().find(|c| !c.is_ascii_whitespace()) == Some(&b'[') { "entities_json" } else { "entity_json" };
                }
                seeds.push(SeedDoc { name: n, kind: k, bytes: b });
            }
        }
        if seeds.is_empty() {
            harness_error(&format!("seed corpus {dir} is empty"));
        }
        for (i, p) in GENERATED_POLICIES.iter().enumerate() {
            seeds.push(SeedDoc { name: format!("gen_policy_{i}"), kind: "policies", bytes: p.as_bytes().to_vec() });
        }
        // the synthetic bundle (names share the prefix `cli__genval`, so that it is treated like a corpus directory)
        seeds.push(SeedDoc { name: "cli__genval__schema.cedarschema".into(), kind: "schema_cedar", bytes: VAL_SCHEMA.as_bytes().to_vec() });
        seeds.push(SeedDoc { name: "cli__genval__entities.json".into(), kind: "entities_json", bytes: VAL_ENTITIES.as_bytes().to_vec() });
        for (i, pol) in VAL_POLICIES.iter().enumerate() {
            seeds.push(SeedDoc { name: format!("cli__genval__gen_policy{i}.cedar"), kind: "policies", bytes: pol.as_bytes().to_vec() });
        }
        for (i, c) in [r#"{"ips": [{"__extn": {"fn": "ip", "arg": "10.0.0.1"}}], "via": {"__entity": {"type": "Org::Person", "id": "bob"}}}"#, r#"{"if": true}"#, r#"{"ips": []}"#].iter().enumerate() {
            seeds.push(SeedDoc { name: format!("cli__genval__gen_context{i}.json"), kind: "context_json", bytes: c.as_bytes().to_vec() });
        }
        seeds.push(SeedDoc { name: "cli__gentags__schema.cedarschema".into(), kind: "schema_cedar", bytes: TAGS_SCHEMA.as_bytes().to_vec() });
        for (i, e) in TAGS_ENTITIES.iter().enumerate() {
            // the first one is the bundle's own store; the others are documents that must be rejected
            seeds.push(SeedDoc { name: if i == 0 { "cli__gentags__entities.json".to_string() } else { format!("cli__gentags__gen_more_entities{i}.json") }, kind: "entities_json", bytes: e.as_bytes().to_vec() });
        }
        for (i, c) in TAGS_CONTEXTS.iter().enumerate() {
            seeds.push(SeedDoc { name: format!("cli__gentags__gen_context{i}.json"), kind: "context_json", bytes: c.as_bytes().to_vec() });
        }
        seeds.push(SeedDoc { name: "cli__gentags__gen_policy.cedar".into(), kind: "policies", bytes: br#"permit(principal, action == Action::"view", resource) when { principal.hasTag("k") && principal.getTag("k").a > 0 && context.r.a == 1 && context.s.contains({"a": 1}) };"#.to_vec() });
        for (i, body) in GENERATED_EVAL.iter().enumerate() {
            seeds.push(SeedDoc { name: format!("gen_eval_{i}"), kind: "policies", bytes: format!("permit(principal, action, resource) when {{ {body} }};\nforbid(principal, action, resource) unless {{ {body} }};").into_bytes() });
            seeds.push(SeedDoc { name: format!("gen_eval_expr_{i}"), kind: "expression", bytes: body.as_bytes().to_vec() });
        }
        for (i, p) in GENERATED_EXPRS.iter().enumerate() {
            seeds.push(SeedDoc { name: format!("gen_expr_{i}"), kind: "expression", bytes: p.as_bytes().to_vec() });
        }
        for (i, p) in GENERATED_SCHEMAS.iter().enumerate() {
            seeds.push(SeedDoc { name: format!("gen_schema_{i}"), kind: "schema_cedar", bytes: p.as_bytes().to_vec() });
        }
        for (i, (k, p)) in GENERATED_JSON.iter().enumerate() {
            seeds.push(SeedDoc { name: format!("gen_json_{i}"), kind: k, bytes: p.as_bytes().to_vec() });
        }
        for (i, (k, p)) in GENERATED_UNICODE.iter().enumerate() {
            seeds.push(SeedDoc { name: format!("gen_unicode_{i}"), kind: k, bytes: p.as_bytes().to_vec() });
        }
        for (i, (k, p)) in GENERATED_ODD.iter().enumerate() {
            seeds.push(SeedDoc { name: format!("gen_odd_{i}"), kind: k, bytes: p.as_bytes().to_vec() });
        }
        seeds.push(SeedDoc { name: "gen_like_stars".into(), kind: "policies", bytes: format!("permit(principal, action, resource) when {{ \"{}\" like \"{}b\" }};", "a".repeat(60), "*a".repeat(40)).into_bytes() });
        seeds.push(SeedDoc { name: "gen_long_ident".into(), kind: "policies", bytes: format!("permit(principal, action, resource) when {{ principal.{} == 1 }};", "x".repeat(10_000)).into_bytes() });
        for d in [8, 24, MAX_DEPTH] {
            for (i, (k, p)) in nested(d).into_iter().enumerate() {
                seeds.push(SeedDoc { name: format!("gen_nested_{d}_{i}"), kind: k, bytes: p.into_bytes() });
            }
        }
        // protobuf encodings produced by cedar itself from the parsed seeds, and FFI envelopes
        let mut extra = vec![];
        // Deriving documents runs cedar code in this process. A crash that cannot be caught (stack
        // overflow, abort) is found by the preflight child (main.rs), which names the seed in
        // VERIF_POOL_SKIP; such a seed stays underived, and the cases built on it report the crash.
        let skip: Vec<String> = std::env::var("VERIF_POOL_SKIP").map(|v| v.split(',').map(|x| x.to_string()).collect()).unwrap_or_default();
        let progress = std::env::var("VERIF_POOL_PROGRESS").ok();
        let note = |name: &str| {
            if let Some(f) = &progress {
                let _ = std::fs::write(f, name);
            }
        };
        for s in &seeds {
            let Ok(text) = std::str::from_utf8(&s.bytes) else { continue };
            if skip.iter().any(|k| k == &s.name) {
                continue;
            }
            note(&s.name);
            // deeply nested documents are only ever handed to cedar inside a case (under the watchdog)
            if s.name.starts_with("gen_nested") || s.name.starts_with("gen_like_stars") || s.name.starts_with("gen_long_ident") {
                continue;
            }
            // building derived documents calls into cedar: a panic there must not take the harness
            // down (the case that feeds the same seed to its entry point will report it)
            let derived = std::panic::catch_unwind(std::panic::AssertUnwindSafe(|| {
            let mut extra: Vec<SeedDoc> = vec![];
            match s.kind {
                "policies" => {
                    if let Ok(ps) = PolicySet::from_str(text) {
                        if let Ok(b) = ps.encode() {
                            extra.push(SeedDoc { name: format!("proto_of_{}", s.name), kind: "proto_policyset", bytes: b });
                        }
                        if let Some(t) = ps.templates().next() {
                            if let Ok(b) = t.encode() {
                                extra.push(SeedDoc { name: format!("proto_template_of_{}", s.name), kind: "proto_template", bytes: b });
                            }
                        }
                        if text.len() < 1500 {
                            extra.push(SeedDoc { name: format!("ffi_auth_of_{}", s.name), kind: "ffi_is_authorized", bytes: json!({"principal": {"type": "User", "id": "alice"}, "action": {"type": "Action", "id": "view"}, "resource": {"type": "Photo", "id": "p"}, "context": {}, "policies": {"staticPolicies": text}, "entities": []}).to_string().into_bytes() });
                            extra.push(SeedDoc { name: format!("ffi_cpp_of_{}", s.name), kind: "ffi_check_parse_policy_set", bytes: json!({"staticPolicies": text}).to_string().into_bytes() });
                        }
                    }
                }
                "expression" => {
                    if let Ok(e) = Expression::from_str(text) {
                        if let Ok(b) = e.encode() {
                            extra.push(SeedDoc { name: format!("proto_of_{}", s.name), kind: "proto_expression", bytes: b });
                        }
                    }
                }
                "schema_cedar" => {
                    if let Ok((sc, _)) = Schema::from_cedarschema_str(text) {
                        if let Ok(b) = sc.encode() {
                            extra.push(SeedDoc { name: format!("proto_of_{}", s.name), kind: "proto_schema", bytes: b });
                        }
                        if text.len() < 1500 {
                            extra.push(SeedDoc { name: format!("ffi_validate_of_{}", s.name), kind: "ffi_validate", bytes: json!({"schema": text, "policies": {"staticPolicies": "permit(principal, action, resource);"}}).to_string().into_bytes() });
                        }
                    }
                }
                "entities_json" => {
                    if let Ok(es) = Entities::from_json_str(text, None) {
                        if let Ok(b) = es.encode() {
                            extra.push(SeedDoc { name: format!("proto_of_{}", s.name), kind: "proto_entities", bytes: b });
                        }
                        if let Some(e) = es.iter().next() {
                            if let Ok(b) = e.encode() {
                                extra.push(SeedDoc { name: format!("proto_entity_of_{}", s.name), kind: "proto_entity", bytes: b });
                            }
                        }
                        if text.len() < 1500 {
                            if let Ok(v) = serde_json::from_str::<Value>(text) {
                                extra.push(SeedDoc { name: format!("ffi_cpe_of_{}", s.name), kind: "ffi_check_parse_entities", bytes: json!({"entities": v}).to_string().into_bytes() });
                            }
                        }
                    }
                }
                "context_json" => {
                    if let Ok(v) = serde_json::from_str::<Value>(text) {
                        if text.len() < 1500 {
                            extra.push(SeedDoc { name: format!("ffi_cpc_of_{}", s.name), kind: "ffi_check_parse_context", bytes: json!({"context": v}).to_string().into_bytes() });
                        }
                        if let Ok(c) = Context::from_json_value(v, None) {
                            if let Ok(r) = Request::new(EntityUid::from_str("U::\"a\"").expect("uid"), EntityUid::from_str("Action::\"x\"").expect("uid"), EntityUid::from_str("U::\"b\"").expect("uid"), c, None) {
                                if let Ok(b) = r.encode() {
                                    extra.push(SeedDoc { name: format!("proto_request_of_{}", s.name), kind: "proto_request", bytes: b });
                                }
                            }
                        }
                    }
                }
                _ => {}
            }
            extra
            }));
            if let Ok(d) = derived {
                extra.extend(d);
            }
        }
        seeds.extend(extra);
        // exhaustive part of the quick tier: every truncation point and every single-bit flip in
        // the first 64 bytes, for every seed of at most 2 KiB, through its native entry point
        let mut exhaustive = vec![];
        // every seed as it is (no fault), through each of its native entry points
        for (i, s) in seeds.iter().enumerate() {
            for e in 0..native_entries(s.kind).len() {
                exhaustive.push((i as u32, 7u8, e as u32));
            }
        }
        for (i, s) in seeds.iter().enumerate() {
            if s.bytes.len() <= 2048 {
                for k in 0..s.bytes.len() {
                    exhaustive.push((i as u32, 0u8, k as u32));
                }
                for bit in 0..(s.bytes.len().min(64) * 8) {
                    exhaustive.push((i as u32, 1u8, bit as u32));
                }
                // JSON documents: every structure-aware fault at every node
                if s.kind.ends_with("_json") {
                    if let Ok(v) = serde_json::from_slice::<Value>(&s.bytes) {
                        let nodes = json_nodes(&v).min(4000);
                        for t in 0..nodes {
                            for mode in 0..9u32 {
                                exhaustive.push((i as u32, 5u8, (t as u32) * 16 + mode));
                            }
                        }
                    }
                }
                // the compact, feature-dense generated documents additionally get, at every
                // position: a stray escape character, a stray quote, a lost byte
                if s.name.starts_with("gen_") && !s.name.starts_with("gen_nested") {
                    for k in 0..=s.bytes.len() {
                        exhaustive.push((i as u32, 2u8, k as u32));
                        exhaustive.push((i as u32, 3u8, k as u32));
                        if k < s.bytes.len() {
                            exhaustive.push((i as u32, 4u8, k as u32));
                        }
                    }
                }
            }
        }
        // documents that consist of one or two grammar tokens, through each text entry point
        for (e, _) in TOKEN_DOC_ENTRIES.iter().enumerate() {
            for t1 in 0..TOKENS.len() {
                exhaustive.push((e as u32, 6u8, (t1 as u32) * 256 + 255));
                for t2 in 0..TOKENS.len() {
                    exhaustive.push((e as u32, 6u8, (t1 as u32) * 256 + t2 as u32));
                }
            }
        }
        let mut schemas = vec![];
        schemas.push(crate::worlds::batched::schema().clone());
        for s in &seeds {
            if s.kind == "schema_cedar" && schemas.len() < 4 {
                if let Ok(text) = std::str::from_utf8(&s.bytes) {
                    if let Ok(Ok((sc, _))) = std::panic::catch_unwind(|| Schema::from_cedarschema_str(text).map(|(s, w)| (s, w.count()))) {
                        schemas.push(sc);
                    }
                }
            }
        }
        let u = |s: &str| EntityUid::from_str(s).expect("uid");
        let requests = vec![
            Request::new(u("User::\"alice\""), u("Action::\"view\""), u("Photo::\"VacationPhoto94.jpg\""), Context::empty(), None).expect("req"),
            Request::new(u("User::\"u0\""), u("Action::\"edit\""), u("Doc::\"d0\""), Context::from_json_value(json!({"n": 3}), None).expect("ctx"), None).expect("req"),
            Request::new(u("U::\"a\""), u("Action::\"x\""), u("U::\"b\""), Context::empty(), None).expect("req"),
        ];
        let entities = Entities::from_json_value(json!([{"uid": {"type": "User", "id": "alice"}, "attrs": {"level": 3, "a": {"b": {"c": 1}}}, "parents": [{"type": "Group", "id": "g"}]}, {"uid": {"type": "U", "id": "a"}, "attrs": {"flag": true}, "parents": []}]), None).expect("entities");
        // bundles
        let mut bundles = std::collections::BTreeMap::new();
        let keys: std::collections::BTreeSet<String> = seeds.iter().filter(|s| s.name.starts_with("cli__")).map(|s| bundle_key(&s.name)).collect();
        for key in keys {
            let pname = format!("bundle:{key}");
            if skip.iter().any(|k| k == &pname) {
                continue;
            }
            note(&pname);
            let built = std::panic::catch_unwind(std::panic::AssertUnwindSafe(|| {
                let text_of = |suffix: &str| seeds.iter().find(|s| bundle_key(&s.name) == key && s.name.ends_with(suffix)).and_then(|s| String::from_utf8(s.bytes.clone()).ok());
                let schema = text_of("schema.cedarschema").and_then(|t| Schema::from_cedarschema_str(&t).ok().map(|x| x.0));
                let ents_text = text_of("entities.json").or_else(|| text_of("entity.json"))?;
                let entities = Entities::from_json_str(&ents_text, None).ok()?;
                let mut requests = vec![];
                if let Some(rt) = text_of("request.json") {
                    if let Ok(v) = serde_json::from_str::<Value>(&rt) {
                        let g = |k: &str| v.get(k).and_then(|x| x.as_str()).and_then(|x| EntityUid::from_str(x).ok());
                        if let (Some(p), Some(a), Some(r)) = (g("principal"), g("action"), g("resource")) {
                            let ctx = Context::from_json_value(v.get("context").cloned().unwrap_or(json!({})), None).unwrap_or_else(|_| Context::empty());
                            if let Ok(rq) = Request::new(p, a, r, ctx, None) {
                                requests.push(rq);
                            }
                        }
                    }
                }
                // a few requests over the bundle's own entities and the actions its policies mention
                let uids: Vec<EntityUid> = {
                    let mut u: Vec<EntityUid> = entities.iter().map(|e| e.uid()).collect();
                    u.sort_by_key(|x| x.to_string());
                    u
                };
                let mut actions: Vec<String> = vec![];
                for sd in seeds.iter().filter(|sd| bundle_key(&sd.name) == key && sd.kind == "policies") {
                    let t = String::from_utf8_lossy(&sd.bytes).to_string();
                    let mut rest = t.as_str();
                    while let Some(i) = rest.find("Action::\"") {
                        // include a namespace prefix such as `Org::`
                        let start = rest[..i].rfind(|c: char| !(c.is_ascii_alphanumeric() || c == '_' || c == ':')).map(|k| k + 1).unwrap_or(0);
                        let prefix = rest[start..i].to_string();
                        let tail = &rest[i + 9..];
                        if let Some(j) = tail.find('"') {
                            let a = format!("{prefix}Action::\"{}\"", &tail[..j]);
                            if !actions.contains(&a) {
                                actions.push(a);
                            }
                            rest = &tail[j..];
                        } else {
                            break;
                        }
                    }
                }
                // requests that conform to the bundle's schema first (the type-aware pipelines need
                // them), then some that do not
                let mut ctxs: Vec<Context> = seeds.iter().filter(|sd| bundle_key(&sd.name) == key && sd.kind == "context_json").filter_map(|sd| std::str::from_utf8(&sd.bytes).ok().and_then(|t| Context::from_json_str(t, None).ok())).take(4).collect();
                ctxs.push(Context::empty());
                let mut valid = vec![];
                let mut other = vec![];
                for a in actions.iter().take(6) {
                    let Ok(a) = EntityUid::from_str(a) else { continue };
                    for p in uids.iter().take(6) {
                        for r in uids.iter().rev().take(6) {
                            for c in &ctxs {
                                if let Some(sc) = &schema {
                                    if let Ok(rq) = Request::new(p.clone(), a.clone(), r.clone(), c.clone(), Some(sc)) {
                                        if valid.len() < 8 {
                                            valid.push(rq);
                                        }
                                        continue;
                                    }
                                }
                                if other.len() < 6 {
                                    if let Ok(rq) = Request::new(p.clone(), a.clone(), r.clone(), c.clone(), None) {
                                        other.push(rq);
                                    }
                                }
                            }
                        }
                    }
                }
                let mut first = std::mem::take(&mut requests);
                first.truncate(1);
                requests = valid;
                requests.extend(first);
                requests.extend(other);
                Some(Bundle { entities, schema, requests })
            }));
            if let Ok(Some(b)) = built {
                bundles.insert(key, b);
            }
        }
        note("");
        let exhaustive_quick: Vec<(u32, u8, u32)> = exhaustive
            .iter()
            .copied()
            .filter(|(si, kind, pos)| {
                if *kind == 6 {
                    return true;
                }
                let sd = &seeds[*si as usize];
                // FFI envelopes repeat a document that is enumerated in its own right: thinned out here
                let envelope = sd.name.starts_with("ffi_");
                match *kind {
                    0 => {
                        if envelope {
                            pos % 4 == 0
                        } else {
                            sd.bytes.len() <= 1024 || sd.name.starts_with("gen_") || pos % 3 == 0
                        }
                    }
                    1 => {
                        if envelope {
                            *pos < 16 * 8
                        } else if sd.name.starts_with("proto") {
                            *pos < 40 * 8
                        } else {
                            true
                        }
                    }
                    _ => true,
                }
            })
            .collect();
        Pools { bundles, seeds, exhaustive, exhaustive_quick, schemas, requests, entities }
    })
}

// ------------------------------------------------------------------ faults

#[derive(Clone, Debug, Serialize, Deserialize, PartialEq)]
pub struct ReaderPlan {
    /// maximal chunk returned per read (1 = byte by byte)
    pub chunk: u16,
    /// return ErrorKind::Interrupted before every n-th read (0 = never)
    pub interrupt_every: u8,
    /// hard error once this many bytes have been delivered
    pub error_at: Option<u32>,
}

#[derive(Clone, Debug, Serialize, Deserialize)]
pub struct Case {
    pub hash_seed: u64,
    pub entry: String,
    pub seed_name: String,
    /// the document as it comes back from storage (after the fault plan), hex encoded
    pub bytes_hex: String,
    pub faults: Vec<String>,
    pub stack_mib: u16,
    pub reader: ReaderPlan,
    pub line_width: u16,
    pub indent: u8,
    pub schema: u8,
    /// designated slow case: executed in a child process of its own with this wall-clock limit
    #[serde(default)]
    pub time_limit_s: Option<u32>,
}

const TOKEN_DOC_ENTRIES: &[&str] = &["policies_text", "schema_cedar", "expression_text"];
const TOKENS: &[&str] = &["permit", "forbid", "when", "unless", "principal", "action", "resource", "context", "&&", "||", "==", "in", "has", "like", "is", "if", "then", "else", "::", "?principal", "?resource", "(", ")", "{", "}", "[", "]", "\"", "\\", "@", ";", ",", ".", "-", "!", "\\u{", "__entity", "__extn", "null", "true", "9223372036854775808", "\u{1F600}", "\0", "entity", "namespace", "appliesTo", "Set<", ">", "type", "__cedar", "__cedar::", "\u{661}", "\u{ff10}", "[]", "{}", "in []", "action", "::\"\"", "*", "ip(", "decimal(", "datetime(", "duration(", "\r", "//", "/*", "*/", "\t", "unknown(\"u\")"];

fn hex(b: &[u8]) -> String {
    let mut s = String::with_capacity(b.len() * 2);
    for x in b {
        s.push_str(&format!("{x:02x}"));
    }
    s
}
fn unhex(s: &str) -> Vec<u8> {
    (0..s.len() / 2).filter_map(|i| u8::from_str_radix(&s[2 * i..2 * i + 2], 16).ok()).collect()
}

fn apply_fault(rng: &mut Rng, cur: &mut Vec<u8>, seeds: &[SeedDoc], original: &[u8]) -> &'static str {
    let n = cur.len();
    match rng.below(17) {
        0 => {
            if n > 0 {
                cur.truncate(rng.below(n));
            }
            "torn_write_truncate"
        }
        1 => {
            if n > 0 {
                let bit = rng.below(n * 8);
                cur[bit / 8] ^= 1 << (bit % 8);
            }
            "bit_flip"
        }
        2 => {
            let t = rng.pick_str(TOKENS).as_bytes();
            if n > 0 {
                let at = rng.below(n);
                for (k, b) in t.iter().enumerate() {
                    if at + k < cur.len() {
                        cur[at + k] = *b;
                    }
                }
            }
            "token_overwrite"
        }
        3 => {
            if n > 0 {
                let at = rng.below(n);
                let len = rng.range(1, 16).min(n - at);
                for b in &mut cur[at..at + len] {
                    *b = 0;
                }
            }
            "zero_range"
        }
        4 => {
            // duplicate a short range (kept short so that nesting cannot grow unboundedly)
            if n > 0 {
                let at = rng.below(n);
                let len = rng.range(1, 24).min(n - at);
                let dup: Vec<u8> = cur[at..at + len].to_vec();
                let ins = rng.below(n + 1);
                cur.splice(ins..ins, dup);
            }
            "duplicate_range"
        }
        5 => {
            if n > 0 {
                let at = rng.below(n);
                let len = rng.range(1, 24).min(n - at);
                cur.drain(at..at + len);
            }
            "drop_range"
        }
        6 => {
            // splice with another stored document
            let other = &seeds[rng.below(seeds.len())].bytes;
            if !other.is_empty() {
                let a = rng.below(n + 1);
                let b = rng.below(other.len());
                let len = rng.range(1, 64).min(other.len() - b);
                let mut v = cur[..a].to_vec();
                v.extend_from_slice(&other[b..b + len]);
                v.extend_from_slice(&cur[a..]);
                *cur = v;
            }
            "splice_other_document"
        }
        7 => {
            // lost write: an older (shorter, differently ending) version comes back
            let keep = original.len() * rng.range(30, 90) / 100;
            *cur = original[..keep].to_vec();
            cur.extend_from_slice(b"\n");
            "lost_write_old_version"
        }
        8 => {
            let t = rng.pick_str(TOKENS).as_bytes().to_vec();
            let at = rng.below(n + 1);
            cur.splice(at..at, t);
            "token_insert"
        }
        9 => {
            if n > 0 {
                let at = rng.below(n);
                cur[at] = *rng.pick(&[0xffu8, 0xc0, 0x80, 0xed, 0xf8]);
            }
            "invalid_utf8"
        }
        10 => {
            if n > 1 {
                let a = rng.below(n);
                let b = rng.below(n);
                cur.swap(a, b);
            }
            "swap_bytes"
        }
        11 | 12 | 13 => {
            // lost update of a sub-document: a structure-aware change of a JSON document
            if let Ok(mut v) = serde_json::from_slice::<Value>(cur) {
                let count = json_nodes(&v);
                let target = rng.below(count.max(1));
                let mode = rng.below(9);
                let mut k = 0usize;
                let fill = rng.below(5);
                if mode >= 7 {
                    // the document comes back as one of its own sub-documents
                    if let Some(sub) = json_nth(&v, target, &mut k) {
                        v = sub;
                    }
                } else {
                    json_mutate(&mut v, target, &mut k, mode, fill);
                }
                *cur = serde_json::to_vec(&v).unwrap_or_default();
                "json_subtree_lost_or_retyped"
            } else {
                // not JSON: lose one token of the text instead
                let t = rng.pick_str(TOKENS).as_bytes();
                if let Some(pos) = cur.windows(t.len().max(1)).position(|w| w == t) {
                    cur.drain(pos..pos + t.len());
                }
                "token_lost"
            }
        }
        15 => {
            // a digit comes back as another Unicode decimal digit
            let digits: Vec<usize> = cur.iter().enumerate().filter(|(_, c)| c.is_ascii_digit()).map(|(i, _)| i).collect();
            if !digits.is_empty() {
                let at = *rng.pick(&digits);
                let d = (cur[at] - b'0') as u32;
                let base = *rng.pick(&[0x0660u32, 0xff10, 0x0966, 0x1d7ce]);
                let ch = char::from_u32(base + d).unwrap_or('0');
                let mut buf = [0u8; 4];
                let enc = ch.encode_utf8(&mut buf).as_bytes().to_vec();
                cur.splice(at..at + 1, enc);
            }
            "unicode_digit_substitution"
        }
        14 => {
            // an escape character appears in front of an arbitrary character
            let at = rng.below(n + 1);
            cur.insert(at, b'\\');
            "backslash_insert"
        }
        _ => "none",
    }
}

fn json_nodes(v: &Value) -> usize {
    1 + match v {
        Value::Array(a) => a.iter().map(json_nodes).sum::<usize>(),
        Value::Object(m) => m.values().map(json_nodes).sum::<usize>(),
        _ => 0,
    }
}

fn json_nth(v: &Value, target: usize, k: &mut usize) -> Option<Value> {
    if *k == target {
        return Some(v.clone());
    }
    *k += 1;
    match v {
        Value::Array(a) => a.iter().find_map(|x| json_nth(x, target, k)),
        Value::Object(m) => m.values().find_map(|x| json_nth(x, target, k)),
        _ => None,
    }
}

/// visit nodes in document order; change the `target`-th one
fn json_mutate(v: &mut Value, target: usize, k: &mut usize, mode: usize, fill: usize) {
    if *k == target {
        *k += 1;
        let repl = [Value::Null, json!(0), json!("x"), json!([]), json!({})];
        match (mode, &mut *v) {
            (0, Value::Array(a)) => a.clear(),
            (0, Value::Object(m)) => m.clear(),
            (1, Value::Array(a)) if !a.is_empty() => {
                a.pop();
            }
            (1, Value::Object(m)) if !m.is_empty() => {
                if let Some(key) = m.keys().next().cloned() {
                    m.remove(&key);
                }
            }
            (2, Value::Array(a)) if !a.is_empty() => {
                let x = a[0].clone();
                a.push(x);
            }
            (3, Value::Object(m)) if m.len() >= 2 => {
                // two fields swap their values
                let keys: Vec<String> = m.keys().take(2).cloned().collect();
                let a = m.get(&keys[0]).cloned().unwrap_or(Value::Null);
                let b = m.get(&keys[1]).cloned().unwrap_or(Value::Null);
                m.insert(keys[0].clone(), b);
                m.insert(keys[1].clone(), a);
            }
            (4, Value::Object(m)) if !m.is_empty() => {
                // a field is renamed to a neighbouring spelling
                if let Some(key) = m.keys().last().cloned() {
                    if let Some(x) = m.remove(&key) {
                        m.insert(if key == "arg" { "args".into() } else if key == "args" { "arg".into() } else { format!("{key}s") }, x);
                    }
                }
            }
            (5, Value::String(s)) => {
                s.push('\u{e9}');
            }
            (_, other) => *other = repl[fill % repl.len()].clone(),
        }
        return;
    }
    *k += 1;
    match v {
        Value::Array(a) => {
            for x in a.iter_mut() {
                if *k > target {
                    return;
                }
                json_mutate(x, target, k, mode, fill);
            }
        }
        Value::Object(m) => {
            for x in m.values_mut() {
                if *k > target {
                    return;
                }
                json_mutate(x, target, k, mode, fill);
            }
        }
        _ => {}
    }
}

/// conservative nesting measure of a document: bracket depth, runs of unary operators, runs of
/// `.a` / `if` ... the property only speaks about documents whose nesting stays within the bound
fn too_deep(b: &[u8]) -> bool {
    let mut depth: i64 = 0;
    let mut max = 0i64;
    let mut unary_run = 0usize;
    let mut max_unary = 0usize;
    for c in b {
        match c {
            b'(' | b'[' | b'{' | b'<' => {
                depth += 1;
                max = max.max(depth);
            }
            b')' | b']' | b'}' | b'>' => depth -= 1,
            _ => {}
        }
        match c {
            b'!' | b'-' => {
                unary_run += 1;
                max_unary = max_unary.max(unary_run);
            }
            b' ' | b'\n' | b'\t' | b'\r' => {}
            _ => unary_run = 0,
        }
    }
    let text = String::from_utf8_lossy(b);
    let ifs = text.matches("if").count();
    let dots = text.matches('.').count();
    let ops = text.matches("&&").count() + text.matches("||").count() + text.matches("has").count() + text.matches(" in ").count() + text.matches('+').count() + text.matches('*').count();
    max as usize > MAX_DEPTH || max_unary > MAX_DEPTH || ifs > MAX_DEPTH + 8 || dots > 4 * MAX_DEPTH || ops > 4 * MAX_DEPTH
}

struct FaultyReader<'a> {
    data: &'a [u8],
    pos: usize,
    plan: &'a ReaderPlan,
    reads: u64,
    pub interrupted: u64,
    pub short_reads: u64,
    pub hard_error: bool,
}
impl Read for FaultyReader<'_> {
    fn read(&mut self, buf: &mut [u8]) -> std::io::Result<usize> {
        self.reads += 1;
        if self.plan.interrupt_every > 0 && self.reads % self.plan.interrupt_every as u64 == 0 && self.interrupted < 10_000 {
            self.interrupted += 1;
            return Err(std::io::Error::new(std::io::ErrorKind::Interrupted, "simulated EINTR"));
        }
        if let Some(at) = self.plan.error_at {
            if self.pos >= at as usize {
                self.hard_error = true;
                return Err(std::io::Error::new(std::io::ErrorKind::Other, "simulated disk error"));
            }
        }
        let mut n = buf.len().min(self.data.len() - self.pos).min(self.plan.chunk.max(1) as usize);
        if let Some(at) = self.plan.error_at {
            n = n.min((at as usize).saturating_sub(self.pos).max(0));
            if n == 0 && self.pos < self.data.len() && !buf.is_empty() {
                self.hard_error = true;
                return Err(std::io::Error::new(std::io::ErrorKind::Other, "simulated disk error"));
            }
        }
        if n < buf.len().min(self.data.len() - self.pos) {
            self.short_reads += 1;
        }
        buf[..n].copy_from_slice(&self.data[self.pos..self.pos + n]);
        self.pos += n;
        Ok(n)
    }
}

struct FaultyWriter<'a> {
    plan: &'a ReaderPlan,
    written: usize,
    writes: u64,
    pub hard_error: bool,
}
impl Write for FaultyWriter<'_> {
    fn write(&mut self, buf: &[u8]) -> std::io::Result<usize> {
        self.writes += 1;
        if self.plan.interrupt_every > 0 && self.writes % self.plan.interrupt_every as u64 == 0 && self.writes < 100_000 {
            return Err(std::io::Error::new(std::io::ErrorKind::Interrupted, "simulated EINTR"));
        }
        if let Some(at) = self.plan.error_at {
            if self.written >= at as usize {
                self.hard_error = true;
                // alternate between a hard error and a zero-length write (disk full)
                if at % 2 == 0 {
                    return Ok(0);
                }
                return Err(std::io::Error::new(std::io::ErrorKind::Other, "simulated disk full"));
            }
        }
        let n = buf.len().min(self.plan.chunk.max(1) as usize);
        self.written += n;
        Ok(n)
    }
    fn flush(&mut self) -> std::io::Result<()> {
        Ok(())
    }
}

// ------------------------------------------------------------------ pipelines

/// every way a user might look at a diagnostic: message, help, code, labels, related, and the
/// graphical / narratable / JSON renderings
fn render_diag<E: miette::Diagnostic + Send + Sync + 'static>(e: E) -> usize {
    let mut n = e.to_string().len();
    n += e.help().map(|h| h.to_string().len()).unwrap_or(0);
    n += e.code().map(|h| h.to_string().len()).unwrap_or(0);
    n += e.labels().map(|l| l.count()).unwrap_or(0);
    n += e.related().map(|l| l.count()).unwrap_or(0);
    let r = miette::Report::new(e);
    let mut out = String::new();
    let _ = miette::GraphicalReportHandler::new_themed(miette::GraphicalTheme::unicode_nocolor()).render_report(&mut out, r.as_ref());
    let _ = miette::NarratableReportHandler::new().render_report(&mut out, r.as_ref());
    let _ = miette::JSONReportHandler::new().render_report(&mut out, r.as_ref());
    n + out.len() + format!("{r:?}").len()
}

struct Pipe<'a> {
    case: &'a Case,
    obs: &'a mut Obs,
    stages: u64,
    violation: Option<Violation>,
}

impl Pipe<'_> {
    /// run one stage under catch_unwind
    fn stage<T>(&mut self, name: &str, f: impl FnOnce() -> T) -> Option<T> {
        if self.violation.is_some() {
            return None;
        }
        self.stages += 1;
        let trace_file = std::env::var("VERIF_STAGE_TRACE").ok();
        let trace = trace_file.is_some();
        let eprintln_to = |line: String| {
            if let Some(f) = &trace_file {
                if let Ok(mut fh) = std::fs::OpenOptions::new().create(true).append(true).open(f) {
                    let _ = writeln!(fh, "{line}");
                }
            }
        };
        if trace {
            eprintln_to(format!("stage {} {name} ...", self.stages));
        }
        let t0 = std::time::Instant::now();
        let res = std::panic::catch_unwind(std::panic::AssertUnwindSafe(f));
        if trace {
            eprintln_to(format!("stage {} {name} took {:?}", self.stages, t0.elapsed()));
        }
        match res {
            Ok(v) => Some(v),
            Err(p) => {
                let msg = crate::hashseam::panic_message(&p);
                let short: String = msg.chars().take(100).collect();
                let v = Violation::new("panic", format!("{} / {name}: {short}", self.case.entry), self.stages as usize, "a result or an error value", format!("panic: {msg}"));
                if !self.obs.is_known(&v) {
                    self.violation = Some(v);
                }
                None
            }
        }
    }
    /// the object-level pipelines behind the experimental APIs: partial evaluation with an
    /// unknown resource, type-aware partial evaluation, batched evaluation, permission queries;
    /// every residual policy they return is printed and converted
    fn experimental(&mut self, ps: &PolicySet, schema: &Schema, entities: &Entities, requests: &[Request], tag: &str) {
        use cedar_policy::{PartialEntities, PartialEntityUid, PartialRequest, PrincipalQueryRequest, ResourceQueryRequest, TestEntityLoader};
        let show = |pol: &Policy| -> usize {
            let mut n = pol.to_string().len();
            n += pol.to_json().map(|j| j.to_string().len()).unwrap_or(0);
            n += pol.to_pst().map(|x| format!("{x}").len()).unwrap_or(0);
            n
        };
        for r in requests.iter().take(3) {
            let (Some(pr), Some(ac), Some(rs)) = (r.principal(), r.action(), r.resource()) else { continue };
            let ctx = r.context().cloned().unwrap_or_else(Context::empty);
            // classic partial evaluation: the resource is unknown
            let preq = Request::builder().principal(pr.clone()).action(ac.clone()).unknown_resource_with_type(rs.type_name().clone()).context(ctx.clone()).build();
            if let Some(presp) = self.stage(&format!("is_authorized_partial{tag}"), || Authorizer::new().is_authorized_partial(&preq, ps, entities)) {
                self.obs.count("reach.partial_evaluated");
                self.stage(&format!("partial response accessors{tag}"), || {
                    let mut n = presp.decision().map(|_| 1).unwrap_or(0) + presp.definitely_errored().count() + presp.unknown_entities().len();
                    for pol in presp.may_be_determining().chain(presp.must_be_determining()).chain(presp.nontrivial_residuals()).chain(presp.all_residuals()) {
                        n += show(&pol);
                    }
                    n
                });
                let val = RestrictedExpression::new_entity_uid(rs.clone());
                let again = self.stage(&format!("partial reauthorize{tag}"), || presp.reauthorize_with_bindings([("resource", &val)], &Authorizer::new(), entities).map(|x| x.decision()).ok());
                if matches!(again, Some(Some(Some(_)))) {
                    self.obs.count("reach.partial_reauthorized_to_decision");
                }
                self.stage(&format!("partial concretize{tag}"), || presp.concretize().diagnostics().errors().map(|e| render_diag(e.clone())).sum::<usize>());
            }
            // Type-aware partial evaluation takes time exponential in the depth of nested
            // `if true then ..` (open known finding, reproduced by the designated document
            // `gen_exptime_if_true_nest_40`); the ordinary seed with 24 of them would cost minutes
            // per case without showing anything more, so it skips the type-aware stages.
            if self.case.seed_name == "gen_nested_48_6" {
                continue;
            }
            // type-aware partial evaluation with an unknown resource of the request's type
            let pents = self.stage(&format!("PartialEntities::from_concrete{tag}"), || PartialEntities::from_concrete(entities.clone(), schema).ok());
            let treq = self.stage(&format!("PartialRequest::new{tag}"), || PartialRequest::new(PartialEntityUid::from_concrete(pr.clone()), ac.clone(), PartialEntityUid::new(rs.type_name().clone(), None), Some(ctx.clone()), schema).ok());
            if let (Some(Some(pents)), Some(Some(treq))) = (pents, treq) {
                self.stage(&format!("tpe{tag}"), || match ps.tpe(&treq, &pents, schema) {
                    Ok(resp) => {
                        let mut n = resp.decision().map(|_| 1).unwrap_or(0) + resp.reason().map(|i| i.count()).unwrap_or(0);
                        n += resp.residual_permits().count() + resp.true_permits().count() + resp.false_permits().count() + resp.error_permits().count();
                        n += resp.residual_forbids().count() + resp.true_forbids().count() + resp.false_forbids().count() + resp.error_forbids().count();
                        for pol in resp.residual_policies().chain(resp.policies()).chain(resp.nontrivial_residual_policies()) {
                            n += show(&pol);
                        }
                        n += resp.policy_set().to_string().len();
                        n += resp.reauthorize(r, entities).map(|x| x.diagnostics().errors().count()).unwrap_or(0);
                        n
                    }
                    Err(e) => render_diag(e),
                });
                self.obs.count("reach.tpe_evaluated");
            }
            for budget in [0u32, 1, 8] {
                self.stage(&format!("is_authorized_batched{tag}"), || {
                    let mut loader = TestEntityLoader::new(entities);
                    match ps.is_authorized_batched(r, schema, &mut loader, budget) {
                        Ok(_) => 0,
                        Err(e) => format!("{e} {e:?}").len(),
                    }
                });
            }
            self.stage(&format!("query_resource{tag}"), || match ResourceQueryRequest::new(pr.clone(), ac.clone(), rs.type_name().clone(), ctx.clone(), schema) {
                Ok(q) => match ps.query_resource(&q, entities, schema) {
                    Ok(it) => it.count(),
                    Err(e) => format!("{e} {e:?}").len(),
                },
                Err(e) => render_diag(e),
            });
            self.stage(&format!("query_principal{tag}"), || match PrincipalQueryRequest::new(pr.type_name().clone(), ac.clone(), rs.clone(), ctx.clone(), schema) {
                Ok(q) => match ps.query_principal(&q, entities, schema) {
                    Ok(it) => it.count(),
                    Err(e) => format!("{e} {e:?}").len(),
                },
                Err(e) => render_diag(e),
            });
        }
        // not run here: the deprecated `compute_entity_manifest` (neither validation, authorization,
        // printing nor conversion; it takes exponential time on 48 nested `if`s - see DESIGN.md 10)
    }
    /// render an error every way a user might
    fn render<E: miette::Diagnostic + Send + Sync + 'static>(&mut self, what: &str, e: E, src: &str) {
        let src = src.to_string();
        self.stage(&format!("render {what}"), move || {
            let _ = e.to_string();
            let _ = format!("{e:?}");
            let _ = e.help().map(|h| h.to_string());
            let _ = e.code().map(|h| h.to_string());
            let _ = e.labels().map(|l| l.count());
            let _ = e.related().map(|l| l.count());
            let r = miette::Report::new(e).with_source_code(src);
            let mut out = String::new();
            let _ = miette::GraphicalReportHandler::new_themed(miette::GraphicalTheme::unicode_nocolor()).render_report(&mut out, r.as_ref());
            let _ = format!("{r:?}");
            let mut out2 = String::new();
            let _ = miette::NarratableReportHandler::new().render_report(&mut out2, r.as_ref());
            let _ = miette::JSONReportHandler::new().render_report(&mut out2, r.as_ref());
        });
    }
    fn render_plain<E: std::fmt::Display + std::fmt::Debug>(&mut self, what: &str, e: E) {
        self.stage(&format!("render {what}"), move || {
            let _ = e.to_string();
            let _ = format!("{e:?}");
        });
    }

    fn policy_set_pipeline(&mut self, ps: &PolicySet, text: Option<&str>) {
        let p = pools();
        self.obs.count("reach.parsed_ok");
        self.stage("display", || ps.to_string());
        self.stage("to_cedar", || ps.to_cedar());
        let js = self.stage("to_json", || ps.clone().to_json());
        if let Some(Ok(j)) = js {
            if let Some(Err(e)) = self.stage("from_json(to_json)", || PolicySet::from_json_value(j)) {
                self.render("policyset_from_json", e, "");
            }
        }
        if let Some(Ok(pst)) = self.stage("to_pst", || ps.to_pst()) {
            self.stage("pst debug", || format!("{pst:?}").len());
            if let Some(Ok(back)) = self.stage("from_pst(to_pst)", || PolicySet::from_pst(pst)) {
                self.stage("from_pst display/to_json", || (back.to_string().len(), back.to_json().is_ok()));
            }
        }
        for pol in ps.policies().take(4) {
            if let Some(Ok(pp)) = self.stage("policy to_pst", || pol.to_pst()) {
                self.stage("pst policy display", || pp.to_string().len());
                if let Some(Ok(b)) = self.stage("Policy::from_pst", || Policy::from_pst(pp)) {
                    self.stage("from_pst policy to_json/display", || (b.to_json().is_ok(), b.to_string().len()));
                }
            }
        }
        for t in ps.templates().take(3) {
            if let Some(Ok(pt)) = self.stage("template to_pst", || t.to_pst()) {
                if let Some(Ok(b)) = self.stage("Template::from_pst", || Template::from_pst(pt)) {
                    self.stage("from_pst template to_json/display", || (b.to_json().is_ok(), b.to_string().len()));
                }
            }
        }
        if let Some(Ok(b)) = self.stage("proto encode", || ps.encode()) {
            self.stage("proto decode(encode)", || PolicySet::decode(&b[..]).is_ok());
        }
        for pol in ps.policies().take(6) {
            self.stage("policy to_json", || pol.to_json().map(|j| j.to_string().len()));
            self.stage("policy display", || pol.to_string());
            self.stage("policy accessors", || (pol.effect(), pol.annotations().count(), pol.principal_constraint(), pol.action_constraint(), pol.resource_constraint(), pol.is_static()));
        }
        // link templates
        let tids: Vec<PolicyId> = ps.templates().map(|t| t.id().clone()).take(3).collect();
        if !tids.is_empty() {
            let mut linked = ps.clone();
            for (k, tid) in tids.iter().enumerate() {
                let t = ps.template(tid).cloned();
                self.stage("template accessors", || t.as_ref().map(|t| (t.slots().count(), t.to_string().len(), t.to_json().is_ok())));
                let slots: Vec<SlotId> = ps.template(tid).map(|t| t.slots().cloned().collect()).unwrap_or_default();
                let vals: HashMap<SlotId, EntityUid> = slots.into_iter().map(|s| (s, EntityUid::from_str("User::\"alice\"").expect("uid"))).collect();
                let r = self.stage("link", || linked.link(tid.clone(), PolicyId::new(format!("sim-link-{k}")), vals));
                if let Some(Err(e)) = r {
                    self.render("link error", e, "");
                }
            }
            self.stage("linked display", || linked.to_string());
            self.stage("linked to_json", || linked.clone().to_json().is_ok());
            self.stage("linked proto", || linked.encode().map(|b| PolicySet::decode(&b[..]).is_ok()));
            for r in &p.requests {
                self.stage("authorize linked", || Authorizer::new().is_authorized(r, &linked, &p.entities).decision());
            }
        }
        if let Some(t) = text {
            for w in [self.case.line_width as usize, 40, 120] {
                let r = self.stage("format", || policies_str_to_pretty(t, &Config { line_width: w, indent_width: self.case.indent as isize }));
                if let Some(Err(e)) = r {
                    self.render_plain("format error", format!("{e:?}"));
                }
            }
        }
        let schema = &p.schemas[self.case.schema as usize % p.schemas.len()];
        let v = Validator::new(schema.clone());
        for mode in [ValidationMode::Strict, ValidationMode::Permissive] {
            if let Some(res) = self.stage("validate", || v.validate(ps, mode)) {
                self.obs.count("reach.validated");
                let t = text.unwrap_or("").to_string();
                self.stage("render validation result", move || {
                    let _ = res.to_string();
                    for e in res.validation_errors() {
                        let _ = e.to_string();
                        let _ = format!("{e:?}");
                        let _ = render_diag(e.clone());
                    }
                    for w in res.validation_warnings() {
                        let _ = w.to_string();
                        let _ = render_diag(w.clone());
                    }
                    let r = miette::Report::new(res).with_source_code(t);
                    let _ = format!("{r:?}");
                });
            }
        }
        self.stage("validate_with_level", || v.validate_with_level(ps, ValidationMode::Strict, 1).validation_passed());
        for r in &p.requests {
            if let Some(resp) = self.stage("authorize", || Authorizer::new().is_authorized(r, ps, &p.entities)) {
                self.stage("render auth errors", || {
                    let mut n = 0;
                    for e in resp.diagnostics().errors() {
                        n += format!("{e} {e:?}").len();
                        n += render_diag(e.clone());
                    }
                    n
                });
            }
        }
        self.experimental(ps, schema, &p.entities, &p.requests, "");
        // the documents stored next to this one: its own entities, schema and requests
        if let Some(b) = p.bundles.get(&bundle_key(&self.case.seed_name)) {
            self.obs.count("reach.evaluated_against_own_bundle");
            if let Some(sc) = &b.schema {
                self.experimental(ps, sc, &b.entities, &b.requests, " (bundle)");
            }
            for r in &b.requests {
                if let Some(resp) = self.stage("authorize (bundle)", || Authorizer::new().is_authorized(r, ps, &b.entities)) {
                    self.stage("render auth errors (bundle)", || {
                        let mut n = 0;
                        for e in resp.diagnostics().errors() {
                            n += format!("{e} {e:?}").len();
                            n += render_diag(e.clone());
                        }
                        n
                    });
                }
            }
            if let Some(sc) = &b.schema {
                let v = Validator::new(sc.clone());
                if let Some(res) = self.stage("validate (bundle schema)", || v.validate(ps, ValidationMode::Strict)) {
                    self.stage("render validation result (bundle)", move || {
                        let mut n = res.to_string().len();
                        for e in res.validation_errors() {
                            n += format!("{e:?}").len() + render_diag(e.clone());
                        }
                        for w in res.validation_warnings() {
                            n += render_diag(w.clone());
                        }
                        n
                    });
                }
                for level in 0..3u32 {
                    self.stage("validate_with_level (bundle schema)", || v.validate_with_level(ps, if level == 1 { ValidationMode::Strict } else { ValidationMode::Permissive }, level).to_string().len());
                }
                // link the bundle's templates against its own entities and authorize
                let tids: Vec<PolicyId> = ps.templates().map(|t| t.id().clone()).take(2).collect();
                if !tids.is_empty() {
                    let mut linked = ps.clone();
                    let us: Vec<EntityUid> = b.entities.iter().map(|e| e.uid()).take(3).collect();
                    for (k, tid) in tids.iter().enumerate() {
                        let slots: Vec<SlotId> = ps.template(tid).map(|t| t.slots().cloned().collect()).unwrap_or_default();
                        if let Some(u) = us.get(k % us.len().max(1)) {
                            let vals: HashMap<SlotId, EntityUid> = slots.into_iter().map(|s| (s, u.clone())).collect();
                            self.stage("link (bundle)", || linked.link(tid.clone(), PolicyId::new(format!("bundle-link-{k}")), vals).is_ok());
                        }
                    }
                    self.stage("validate linked (bundle)", || v.validate(&linked, ValidationMode::Strict).validation_passed());
                    for r in b.requests.iter().take(6) {
                        self.stage("authorize linked (bundle)", || Authorizer::new().is_authorized(r, &linked, &b.entities).decision());
                    }
                }
            }
        }
    }

    fn entities_pipeline(&mut self, es: &Entities) {
        let p = pools();
        self.obs.count("reach.parsed_ok");
        self.stage("entities to_json", || es.to_json_value().map(|v| v.to_string().len()));
        self.stage("entities to_dot", || es.to_dot_str().len());
        self.stage("entities accessors", || es.iter().map(|e| (e.uid().to_string().len(), e.attrs().count(), es.ancestors(&e.uid()).map(|a| a.count()))).count());
        if let Some(Ok(b)) = self.stage("entities proto encode", || es.encode()) {
            self.stage("entities proto decode", || Entities::decode(&b[..]).is_ok());
        }
        let ps = PolicySet::from_str("permit(principal, action, resource) when { principal in resource || principal has level && principal.level > 1 };").expect("policy");
        for r in &p.requests {
            self.stage("authorize over entities", || Authorizer::new().is_authorized(r, &ps, es).decision());
        }
        let plan = self.case.reader.clone();
        self.stage("entities write_to_json (faulty writer)", || {
            let mut w = FaultyWriter { plan: &plan, written: 0, writes: 0, hard_error: false };
            let r = es.write_to_json(&mut w);
            (r.is_ok(), w.hard_error)
        });
    }

    fn schema_pipeline(&mut self, s: &Schema) {
        self.obs.count("reach.parsed_ok");
        self.stage("schema accessors", || (s.entity_types().count(), s.actions().count(), s.principals().count(), s.resources().count(), s.action_groups().count(), s.request_envs().count()));
        self.stage("schema action_entities", || s.action_entities().map(|e| e.len()));
        if let Some(Ok(b)) = self.stage("schema proto encode", || s.encode()) {
            self.stage("schema proto decode", || Schema::decode(&b[..]).is_ok());
        }
        let ps = PolicySet::from_str("permit(principal, action, resource) when { principal has a && principal.a == resource };").expect("policy");
        let v = Validator::new(s.clone());
        self.stage("validate against parsed schema", || v.validate(&ps, ValidationMode::Strict).to_string().len());
    }

    fn fragment_pipeline(&mut self, f: &SchemaFragment) {
        if let Some(Err(e)) = self.stage("fragment to_cedarschema", || f.to_cedarschema()) {
            self.render("to_cedarschema error", e, "");
        }
        self.stage("fragment to_json", || f.to_json_string().map(|s| s.len()));
        self.stage("fragment namespaces", || f.namespaces().count());
    }

    fn run(&mut self, bytes: &[u8]) {
        let p = pools();
        let entry = self.case.entry.clone();
        let text_owned = String::from_utf8_lossy(bytes).to_string();
        let text: &str = &text_owned;
        let is_utf8 = std::str::from_utf8(bytes).is_ok();
        let schema = p.schemas[self.case.schema as usize % p.schemas.len()].clone();
        match entry.as_str() {
            "policies_text" => match self.stage("PolicySet::from_str", || PolicySet::from_str(text)) {
                Some(Ok(ps)) => self.policy_set_pipeline(&ps, Some(text)),
                Some(Err(e)) => self.render("parse error", e, text),
                None => {}
            },
            "policy_text" => match self.stage("Policy::parse", || Policy::parse(None, text)) {
                Some(Ok(pol)) => {
                    if let Some(Ok(ps)) = self.stage("from_policies", || PolicySet::from_policies([pol])) {
                        self.policy_set_pipeline(&ps, None);
                    }
                }
                Some(Err(e)) => self.render("parse error", e, text),
                None => {}
            },
            "template_text" => match self.stage("Template::parse", || Template::parse(None, text)) {
                Some(Ok(t)) => {
                    let mut ps = PolicySet::new();
                    if self.stage("add_template", || ps.add_template(t)).is_some_and(|r| r.is_ok()) {
                        self.policy_set_pipeline(&ps, None);
                    }
                }
                Some(Err(e)) => self.render("parse error", e, text),
                None => {}
            },
            "expression_text" => match self.stage("Expression::from_str", || Expression::from_str(text)) {
                Some(Ok(e)) => {
                    self.obs.count("reach.parsed_ok");
                    self.stage("expr display", || e.to_string());
                    if let Some(Ok(b)) = self.stage("expr proto", || e.encode()) {
                        self.stage("expr proto decode", || Expression::decode(&b[..]).is_ok());
                    }
                    for r in &p.requests {
                        if let Some(Err(er)) = self.stage("eval_expression", || cedar_policy::eval_expression(r, &p.entities, &e)) {
                            self.render("evaluation error", er, text);
                        }
                    }
                }
                Some(Err(e)) => self.render("parse error", e, text),
                None => {}
            },
            "restricted_expression_text" => match self.stage("RestrictedExpression::from_str", || RestrictedExpression::from_str(text)) {
                Some(Ok(e)) => {
                    self.obs.count("reach.parsed_ok");
                    self.stage("context from_pairs", || Context::from_pairs([("k".to_string(), e)]).map(|c| c.to_json_value().is_ok()));
                }
                Some(Err(e)) => self.render("parse error", e, text),
                None => {}
            },
            "euid_text" => match self.stage("EntityUid::from_str", || EntityUid::from_str(text)) {
                Some(Ok(u)) => {
                    self.obs.count("reach.parsed_ok");
                    self.stage("euid display/json", || (u.to_string(), u.to_json_value().is_ok()));
                }
                Some(Err(e)) => self.render("parse error", e, text),
                None => {}
            },
            "schema_cedar" => {
                match self.stage("Schema::from_cedarschema_str", || Schema::from_cedarschema_str(text).map(|(s, w)| (s, w.map(|x| x.to_string()).count()))) {
                    Some(Ok((s, _))) => self.schema_pipeline(&s),
                    Some(Err(e)) => self.render("schema error", e, text),
                    None => {}
                }
                match self.stage("SchemaFragment::from_cedarschema_str", || SchemaFragment::from_cedarschema_str(text).map(|(s, w)| (s, w.count()))) {
                    Some(Ok((f, _))) => self.fragment_pipeline(&f),
                    Some(Err(e)) => self.render("schema fragment error", e, text),
                    None => {}
                }
                if let Some(Err(e)) = self.stage("schema_str_to_json_with_resolved_types", || cedar_policy::schema_str_to_json_with_resolved_types(text).map(|(v, w)| (v.to_string().len(), w.len()))) {
                    self.render_plain("resolved types error", e);
                }
            }
            "schema_json" => {
                match self.stage("Schema::from_json_str", || Schema::from_json_str(text)) {
                    Some(Ok(s)) => self.schema_pipeline(&s),
                    Some(Err(e)) => self.render("schema error", e, text),
                    None => {}
                }
                match self.stage("SchemaFragment::from_json_str", || SchemaFragment::from_json_str(text)) {
                    Some(Ok(f)) => self.fragment_pipeline(&f),
                    Some(Err(e)) => self.render("schema fragment error", e, text),
                    None => {}
                }
            }
            "entities_json" => {
                let bundle_schema = p.bundles.get(&bundle_key(&self.case.seed_name)).and_then(|b| b.schema.clone());
                if let Some(bs) = &bundle_schema {
                    match self.stage("Entities::from_json_str (bundle schema)", || Entities::from_json_str(text, Some(bs))) {
                        Some(Ok(es)) => self.entities_pipeline(&es),
                        Some(Err(e)) => self.render("entities error", e, text),
                        None => {}
                    }
                }
                for sch in [None, Some(&schema)] {
                    match self.stage("Entities::from_json_str", || Entities::from_json_str(text, sch)) {
                        Some(Ok(es)) => self.entities_pipeline(&es),
                        Some(Err(e)) => self.render("entities error", e, text),
                        None => {}
                    }
                }
                let base = p.entities.clone();
                if let Some(Err(e)) = self.stage("add_entities_from_json_str", || base.add_entities_from_json_str(text, None).map(|e| e.len())) {
                    self.render("entities error", e, text);
                }
            }
            "entity_json" => {
                for sch in [None, Some(&schema)] {
                    match self.stage("Entity::from_json_str", || Entity::from_json_str(text, sch)) {
                        Some(Ok(e)) => {
                            self.obs.count("reach.parsed_ok");
                            self.stage("entity to_json/display", || (e.to_json_value().is_ok(), e.to_string().len()));
                            if let Some(Ok(b)) = self.stage("entity proto", || e.encode()) {
                                self.stage("entity proto decode", || Entity::decode(&b[..]).is_ok());
                            }
                        }
                        Some(Err(e)) => self.render("entity error", e, text),
                        None => {}
                    }
                }
            }
            "context_json" => {
                let action = EntityUid::from_str("Action::\"view\"").expect("uid");
                for sch in [None, Some((&schema, &action))] {
                    match self.stage("Context::from_json_str", || Context::from_json_str(text, sch)) {
                        Some(Ok(c)) => {
                            self.obs.count("reach.parsed_ok");
                            self.stage("context to_json", || c.to_json_value().is_ok());
                            if let Some(Err(e)) = self.stage("context validate", || c.validate(&schema, &action)) {
                                self.render("context validation error", e, text);
                            }
                            let req = self.stage("Request::new", || Request::new(EntityUid::from_str("User::\"alice\"").expect("uid"), action.clone(), EntityUid::from_str("Doc::\"d\"").expect("uid"), c.clone(), None));
                            if let Some(Ok(r)) = req {
                                let ps = PolicySet::from_str("permit(principal, action, resource) when { context has a && context.a == 1 };").expect("policy");
                                self.stage("authorize with context", || Authorizer::new().is_authorized(&r, &ps, &p.entities).decision());
                            }
                        }
                        Some(Err(e)) => self.render("context error", e, text),
                        None => {}
                    }
                }
            }
            "policy_json" => {
                let v = self.stage("serde_json::from_str", || serde_json::from_str::<Value>(text));
                if let Some(Ok(v)) = v {
                    match self.stage("Policy::from_json", || Policy::from_json(None, v.clone())) {
                        Some(Ok(pol)) => {
                            if let Some(Ok(ps)) = self.stage("from_policies", || PolicySet::from_policies([pol])) {
                                self.policy_set_pipeline(&ps, None);
                            }
                        }
                        Some(Err(e)) => self.render("policy from_json error", e, text),
                        None => {}
                    }
                    match self.stage("Template::from_json", || Template::from_json(None, v.clone())) {
                        Some(Ok(t)) => {
                            let mut ps = PolicySet::new();
                            if self.stage("add_template", || ps.add_template(t)).is_some_and(|r| r.is_ok()) {
                                self.policy_set_pipeline(&ps, None);
                            }
                        }
                        Some(Err(e)) => self.render("template from_json error", e, text),
                        None => {}
                    }
                }
            }
            "policyset_json" => match self.stage("PolicySet::from_json_str", || PolicySet::from_json_str(text)) {
                Some(Ok(ps)) => self.policy_set_pipeline(&ps, None),
                Some(Err(e)) => self.render("policyset from_json error", e, text),
                None => {}
            },
            "proto_policyset" => {
                match self.stage("PolicySet::decode", || PolicySet::decode(bytes)) {
                    Some(Ok(ps)) => self.policy_set_pipeline(&ps, None),
                    Some(Err(e)) => self.render_plain("decode error", e),
                    None => {}
                }
                self.stage("PolicySet::decode_unchecked", || PolicySet::decode_unchecked(bytes).map(|p| p.to_string().len()).is_ok());
            }
            "proto_entities" => {
                match self.stage("Entities::decode", || Entities::decode(bytes)) {
                    Some(Ok(es)) => self.entities_pipeline(&es),
                    Some(Err(e)) => self.render_plain("decode error", e),
                    None => {}
                }
                if let Some(Ok(es)) = self.stage("Entities::decode_unchecked", || Entities::decode_unchecked(bytes)) {
                    // unchecked data may violate invariants; it must still not panic when used
                    let ps = PolicySet::from_str("permit(principal, action, resource) when { principal in resource };").expect("policy");
                    for r in &p.requests {
                        self.stage("authorize over unchecked entities", || Authorizer::new().is_authorized(r, &ps, &es).decision());
                    }
                    self.stage("unchecked entities to_json", || es.to_json_value().is_ok());
                }
            }
            "proto_schema" => match self.stage("Schema::decode", || Schema::decode(bytes)) {
                Some(Ok(s)) => self.schema_pipeline(&s),
                Some(Err(e)) => self.render_plain("decode error", e),
                None => {}
            },
            "proto_template" => match self.stage("Template::decode", || Template::decode(bytes)) {
                Some(Ok(t)) => {
                    let mut ps = PolicySet::new();
                    if self.stage("add_template", || ps.add_template(t)).is_some_and(|r| r.is_ok()) {
                        self.policy_set_pipeline(&ps, None);
                    }
                }
                Some(Err(e)) => self.render_plain("decode error", e),
                None => {}
            },
            "proto_expression" => match self.stage("Expression::decode", || Expression::decode(bytes)) {
                Some(Ok(e)) => {
                    self.obs.count("reach.parsed_ok");
                    self.stage("expr display", || e.to_string());
                    for r in &p.requests {
                        self.stage("eval decoded expression", || cedar_policy::eval_expression(r, &p.entities, &e).is_ok());
                    }
                }
                Some(Err(e)) => self.render_plain("decode error", e),
                None => {}
            },
            "proto_entity" => match self.stage("Entity::decode", || Entity::decode(bytes)) {
                Some(Ok(e)) => {
                    self.obs.count("reach.parsed_ok");
                    self.stage("entity display/json", || (e.to_string().len(), e.to_json_value().is_ok()));
                    self.stage("entities from decoded entity", || Entities::from_entities([e.clone()], None).is_ok());
                }
                Some(Err(e)) => self.render_plain("decode error", e),
                None => {}
            },
            "proto_request" => match self.stage("Request::decode", || Request::decode(bytes)) {
                Some(Ok(r)) => {
                    self.obs.count("reach.parsed_ok");
                    let ps = PolicySet::from_str("permit(principal, action, resource) when { context has a };").expect("policy");
                    self.stage("authorize decoded request", || Authorizer::new().is_authorized(&r, &ps, &p.entities).decision());
                    self.stage("request accessors", || (r.principal().map(|x| x.to_string()), r.context().map(|c| c.to_json_value().is_ok())));
                }
                Some(Err(e)) => self.render_plain("decode error", e),
                None => {}
            },
            "ffi_is_authorized" => {
                if let Some(Ok(s)) = self.stage("ffi::is_authorized_json_str", || ffi::is_authorized_json_str(text)) {
                    self.obs.count("reach.parsed_ok");
                    let _ = s.len();
                }
                self.stage("ffi::is_authorized_partial_json_str", || ffi::is_authorized_partial_json_str(text).map(|s| s.len()).is_ok());
            }
            "ffi_validate" => {
                if self.stage("ffi::validate_json_str", || ffi::validate_json_str(text).is_ok()) == Some(true) {
                    self.obs.count("reach.parsed_ok");
                }
            }
            "ffi_format" => {
                let call = json!({"policyText": text, "lineWidth": self.case.line_width, "indentWidth": self.case.indent}).to_string();
                if self.stage("ffi::format_json_str", || ffi::format_json_str(&call).is_ok()) == Some(true) {
                    self.obs.count("reach.parsed_ok");
                }
                self.stage("ffi::policy_set_text_to_parts", || serde_json::to_string(&ffi::policy_set_text_to_parts(text)).map(|s| s.len()).is_ok());
                if let Ok(pol) = serde_json::from_value::<ffi::Policy>(Value::String(text.to_string())) {
                    self.stage("ffi::policy_to_json", || serde_json::to_string(&ffi::policy_to_json(pol)).is_ok());
                }
                if let Ok(t) = serde_json::from_value::<ffi::Template>(Value::String(text.to_string())) {
                    self.stage("ffi::template_to_json", || serde_json::to_string(&ffi::template_to_json(t)).is_ok());
                }
            }
            "ffi_format_raw" => {
                if self.stage("ffi::format_json_str (raw envelope)", || ffi::format_json_str(text).is_ok()) == Some(true) {
                    self.obs.count("reach.parsed_ok");
                }
            }
            "ffi_check_parse_policy_set" => {
                if self.stage("ffi::check_parse_policy_set_json_str", || ffi::check_parse_policy_set_json_str(text).is_ok()) == Some(true) {
                    self.obs.count("reach.parsed_ok");
                }
            }
            "ffi_check_parse_schema" => {
                if self.stage("ffi::check_parse_schema_json_str", || ffi::check_parse_schema_json_str(text).is_ok()) == Some(true) {
                    self.obs.count("reach.parsed_ok");
                }
                if let Ok(s) = serde_json::from_str::<ffi::Schema>(text) {
                    let s2 = s.clone();
                    self.stage("ffi::schema_to_text", || serde_json::to_string(&ffi::schema_to_text(s)).is_ok());
                    self.stage("ffi::schema_to_json", || serde_json::to_string(&ffi::schema_to_json(s2)).is_ok());
                }
            }
            "ffi_check_parse_entities" => {
                if self.stage("ffi::check_parse_entities_json_str", || ffi::check_parse_entities_json_str(text).is_ok()) == Some(true) {
                    self.obs.count("reach.parsed_ok");
                }
            }
            "ffi_check_parse_context" => {
                if self.stage("ffi::check_parse_context_json_str", || ffi::check_parse_context_json_str(text).is_ok()) == Some(true) {
                    self.obs.count("reach.parsed_ok");
                }
            }
            e if e.starts_with("reader_") => {
                let plan = self.case.reader.clone();
                let mk = || FaultyReader { data: bytes, pos: 0, plan: &plan, reads: 0, interrupted: 0, short_reads: 0, hard_error: false };
                // (result ok?, hard error injected?, interrupts, short reads)
                let r: Option<(bool, bool, u64, u64)> = match e {
                    "reader_entities" => self.stage("Entities::from_json_file", || {
                        let mut rd = mk();
                        let r = Entities::from_json_file(&mut rd, None);
                        (r.is_ok(), rd.hard_error, rd.interrupted, rd.short_reads)
                    }),
                    "reader_schema_cedar" => self.stage("Schema::from_cedarschema_file", || {
                        let mut rd = mk();
                        let r = Schema::from_cedarschema_file(&mut rd).map(|(s, w)| (s, w.count()));
                        (r.is_ok(), rd.hard_error, rd.interrupted, rd.short_reads)
                    }),
                    "reader_schema_json" => self.stage("Schema::from_json_file", || {
                        let mut rd = mk();
                        let r = Schema::from_json_file(&mut rd);
                        (r.is_ok(), rd.hard_error, rd.interrupted, rd.short_reads)
                    }),
                    "reader_policyset_json" => self.stage("PolicySet::from_json_file", || {
                        let mut rd = mk();
                        let r = PolicySet::from_json_file(&mut rd);
                        (r.is_ok(), rd.hard_error, rd.interrupted, rd.short_reads)
                    }),
                    _ => self.stage("Context::from_json_file", || {
                        let mut rd = mk();
                        let r = Context::from_json_file(&mut rd, None);
                        (r.is_ok(), rd.hard_error, rd.interrupted, rd.short_reads)
                    }),
                };
                if let Some((ok, hard, intr, short)) = r {
                    self.obs.add("fault.reader_interrupted", intr);
                    self.obs.add("fault.reader_short_read", short);
                    if hard {
                        self.obs.count("fault.reader_hard_error");
                        // a statistic, not part of the property: did the hard error surface as Err?
                        if ok {
                            self.obs.count("stat.reader_hard_error_but_ok");
                        }
                    }
                    if ok {
                        self.obs.count("reach.parsed_ok");
                    }
                }
            }
            "writer_entities" => {
                if let Some(Ok(es)) = self.stage("Entities::from_json_str", || Entities::from_json_str(text, None)) {
                    self.entities_pipeline(&es);
                }
            }
            _ => {}
        }
        let _ = is_utf8;
    }
}

/// Documents on which some pipeline stage is known, or suspected, to take time exponential in a
/// nesting depth that is within the property's bound. They run in a child process of their own
/// with a wall-clock limit, so that one of them costs seconds, not the watchdog's minutes.
pub fn designated_slow() -> Vec<(String, String, String)> {
    let d = 40;
    vec![
        ("gen_exptime_is_in_nest_40".to_string(), "policies_text".to_string(), format!("permit(principal, action, resource) when {{ {}principal{} }};", "(".repeat(d), " is User in resource)".repeat(d))),
        ("gen_exptime_has_chain_nest_40".to_string(), "policies_text".to_string(), format!("permit(principal, action, resource) when {{ {}principal{} }};", "(".repeat(d), " has a.b)".repeat(d))),
        ("gen_else_if_chain_48".to_string(), "policies_text".to_string(), format!("permit(principal, action, resource) when {{ {} true }};", "if context.n > 0 then false else ".repeat(MAX_DEPTH))),
        // a constant-true guard makes the typechecker put the live branch in both positions; TPE walks both
        ("gen_exptime_if_true_nest_40".to_string(), "policies_text".to_string(), format!("permit(principal, action, resource) when {{ {} true {} }};", "if true then ".repeat(d), " else false".repeat(d))),
        // the formatter's work (and output) is proportional to the indent width it is asked for
        ("gen_format_huge_indent".to_string(), "ffi_format_raw".to_string(), r#"{"policyText": "permit(principal, action, resource) when { principal.a && [1, 2, 3].contains(1) };", "lineWidth": 1, "indentWidth": 400000000}"#.to_string()),
    ]
}

fn exec(case: &Case, obs: &mut Obs) -> Option<Violation> {
    if let (Some(limit), true) = (case.time_limit_s, std::env::var("VERIF_IN_CHILD").is_err()) {
        obs.count("evaluations");
        obs.count("time_limited_cases");
        let inner = Case { time_limit_s: None, ..case.clone() };
        let world = std::sync::Arc::new(StorageFaults);
        let v = match run_case_isolated(&world, &inner, limit as u64) {
            Isolated::Finished(v) => v,
            Isolated::Died(st) => Some(Violation::new("process_death", format!("{} {}: process died: {st}", case.entry, case.seed_name), 0, "a result or an error value", format!("the process executing the case ended with {st}"))),
            Isolated::TimedOut => Some(Violation::new("hang", format!("{} {}: no result within {limit} s, alone in a fresh process", case.entry, case.seed_name), 0, "termination (the same pipeline takes milliseconds at nesting depth 8)", "still running")),
        };
        obs.event(format!("{} {} time-limited v={}", case.entry, case.seed_name, v.as_ref().map(|x| x.kind.clone()).unwrap_or_default()));
        return match v {
            Some(v) if obs.is_known(&v) => None,
            other => other,
        };
    }
    let bytes = unhex(&case.bytes_hex);
    obs.count("evaluations");
    obs.count("logical_steps");
    obs.add("bytes_delivered", bytes.len() as u64);
    for f in &case.faults {
        obs.count(&format!("fault.{f}"));
    }
    if too_deep(&bytes) {
        obs.count("skipped_nesting_beyond_bound");
        return None;
    }
    // the run's thread was created with the stack size this case asks for (case_stack_mib)
    let mut p = Pipe { case, obs, stages: 0, violation: None };
    p.run(&bytes);
    let (stages, v) = (p.stages, p.violation.take());
    obs.add("pipeline_stages", stages);
    obs.event(format!("{} {} stages={stages} v={}", case.entry, case.seed_name, v.is_some()));
    if obs.counters.get("reach.parsed_ok").copied().unwrap_or(0) > 0 {
        obs.mark("nontrivial", mix(&[tag(&case.entry), tag(&case.bytes_hex)]));
    }
    v
}

pub struct StorageFaults;

impl World for StorageFaults {
    type Case = Case;
    fn property(&self) -> &'static str {
        "C20"
    }
    fn name(&self) -> &'static str {
        "storagefaults"
    }
    fn level(&self) -> &'static str {
        "fault_enumeration"
    }
    fn runs(&self, tier: Tier) -> u64 {
        let d = designated_slow().len() as u64;
        match tier {
            Tier::Quick => pools().exhaustive_quick.len() as u64 + d + 40_000,
            Tier::Thorough => pools().exhaustive.len() as u64 + d + 6_000_000,
        }
    }
    fn crash_isolated(&self) -> bool {
        true
    }
    fn describe(&self, case: &Case) -> String {
        format!("{} {}", case.entry, case.seed_name)
    }
    fn case_stack_mib(&self, case: &Case) -> usize {
        case.stack_mib.max(1) as usize
    }
    fn generate(&self, seed: u64, _tier: Tier) -> Case {
        self.generate_indexed(u64::MAX, seed, _tier)
    }
    fn generate_indexed(&self, index: u64, seed: u64, tier: Tier) -> Case {
        let p = pools();
        let exhaustive: &Vec<(u32, u8, u32)> = if tier == Tier::Quick { &p.exhaustive_quick } else { &p.exhaustive };
        let mut rng = Rng::sub(seed, "faults");
        let mut hs = Rng::sub(seed, "hashkeys");
        let mut knobs = Rng::sub(seed, "knobs");
        let reader = ReaderPlan { chunk: *knobs.pick(&[1u16, 2, 7, 64, 4096]), interrupt_every: *knobs.pick(&[0u8, 0, 2, 3, 7]), error_at: if knobs.pct(35) { Some(knobs.below(600) as u32) } else { None } };
        let stack_mib = *knobs.pick(&[2u16, 8, 8, 64]);
        let line_width = *knobs.pick(&[0u16, 1, 20, 80, 200]);
        let indent = *knobs.pick(&[0u8, 2, 8]);
        let schema = knobs.below(4) as u8;
        let slow = designated_slow();
        if (index as usize) < slow.len() {
            let (name, entry, text) = &slow[index as usize];
            return Case { hash_seed: hs.next(), entry: entry.clone(), seed_name: name.clone(), bytes_hex: hex(text.as_bytes()), faults: vec![], stack_mib: 64, reader, line_width: 80, indent: 2, schema: 0, time_limit_s: Some(20) };
        }
        let index = index.wrapping_sub(slow.len() as u64);
        if (index as usize) < exhaustive.len() && exhaustive[index as usize].1 == 6 {
            let (e, _, pos) = exhaustive[index as usize];
            let (t1, t2) = ((pos / 256) as usize, (pos % 256) as usize);
            let mut doc = TOKENS[t1 % TOKENS.len()].to_string();
            if t2 != 255 {
                doc.push(' ');
                doc.push_str(TOKENS[t2 % TOKENS.len()]);
            }
            return Case { hash_seed: hs.next(), entry: TOKEN_DOC_ENTRIES[e as usize % TOKEN_DOC_ENTRIES.len()].to_string(), seed_name: "token_document".into(), bytes_hex: hex(doc.as_bytes()), faults: vec!["document_replaced_by_tokens".into()], stack_mib, reader, line_width, indent, schema, time_limit_s: None };
        }
        if (index as usize) < exhaustive.len() {
            // exhaustive part: one enumerated fault at an enumerated position, native entry point
            let (si, kind, pos) = exhaustive[index as usize];
            let s = &p.seeds[si as usize];
            let mut b = s.bytes.clone();
            if kind == 7 {
                let entries = native_entries(s.kind);
                return Case { hash_seed: hs.next(), entry: entries[pos as usize % entries.len()].to_string(), seed_name: s.name.clone(), bytes_hex: hex(&b), faults: vec![], stack_mib, reader, line_width, indent, schema, time_limit_s: None };
            }
            let fault = match kind {
                0 => {
                    b.truncate(pos as usize);
                    "torn_write_truncate"
                }
                1 => {
                    b[pos as usize / 8] ^= 1 << (pos % 8);
                    "bit_flip"
                }
                2 => {
                    b.insert(pos as usize, b'\\');
                    "backslash_insert"
                }
                3 => {
                    b.insert(pos as usize, b'"');
                    "quote_insert"
                }
                5 => {
                    if let Ok(mut v) = serde_json::from_slice::<Value>(&b) {
                        let (target, mode) = ((pos / 16) as usize, (pos % 16) as usize);
                        let mut k = 0usize;
                        if mode >= 7 {
                            if let Some(sub) = json_nth(&v, target, &mut k) {
                                v = sub;
                            }
                        } else {
                            json_mutate(&mut v, target, &mut k, mode, (target + mode) % 5);
                        }
                        b = serde_json::to_vec(&v).unwrap_or_default();
                    }
                    "json_subtree_lost_or_retyped"
                }
                _ => {
                    b.remove(pos as usize);
                    "byte_lost"
                }
            };
            let entries = native_entries(s.kind);
            let which = if kind <= 1 { (pos as usize + si as usize) % entries.len() } else { 0 };
            return Case { hash_seed: hs.next(), entry: entries[which].to_string(), seed_name: s.name.clone(), bytes_hex: hex(&b), faults: vec![fault.to_string()], stack_mib, reader, line_width, indent, schema, time_limit_s: None };
        }
        let si = rng.below(p.seeds.len());
        let s = &p.seeds[si];
        let mut b = s.bytes.clone();
        let mut faults = vec![];
        let nf = *rng.pick(&[0usize, 1, 1, 1, 2, 2, 3, 4]);
        for _ in 0..nf {
            let f = apply_fault(&mut rng, &mut b, &p.seeds, &s.bytes);
            if f != "none" {
                faults.push(f.to_string());
            }
        }
        if b.len() > 16384 {
            b.truncate(16384);
        }
        // mostly the native entry point, sometimes a wrong-format delivery
        let entry = if rng.pct(88) {
            rng.pick_str(native_entries(s.kind)).to_string()
        } else {
            faults.push("wrong_format_delivery".to_string());
            rng.pick_str(ENTRIES).to_string()
        };
        Case { hash_seed: hs.next(), entry, seed_name: s.name.clone(), bytes_hex: hex(&b), faults, stack_mib, reader, line_width, indent, schema, time_limit_s: None }
    }
    fn hash_seed(&self, case: &Case) -> u64 {
        case.hash_seed
    }
    fn execute(&self, case: &Case, obs: &mut Obs) -> Option<Violation> {
        exec(case, obs)
    }
    fn shrink(&self, case: &Case) -> Vec<Case> {
        let mut out = vec![];
        let b = unhex(&case.bytes_hex);
        // chunk deletions down to 1/32 of the document, then line deletions
        let n = b.len();
        let mut chunk = n / 2;
        while chunk >= (n / 32).max(1) && chunk >= 1 {
            let mut start = 0;
            while start < n {
                let end = (start + chunk).min(n);
                let mut v = b[..start].to_vec();
                v.extend_from_slice(&b[end..]);
                out.push(Case { bytes_hex: hex(&v), ..case.clone() });
                start += chunk;
            }
            if chunk == 1 {
                break;
            }
            chunk /= 2;
        }
        let lines: Vec<&[u8]> = b.split(|c| *c == b'\n').collect();
        if lines.len() > 1 && lines.len() < 200 {
            for i in 0..lines.len() {
                let v: Vec<u8> = lines.iter().enumerate().filter(|(k, _)| *k != i).map(|(_, l)| l.to_vec()).collect::<Vec<_>>().join(&b'\n');
                out.push(Case { bytes_hex: hex(&v), ..case.clone() });
            }
        }
        if case.stack_mib != 8 {
            out.push(Case { stack_mib: 8, ..case.clone() });
        }
        if case.reader.interrupt_every != 0 || case.reader.error_at.is_some() || case.reader.chunk != 4096 {
            out.push(Case { reader: ReaderPlan { chunk: 4096, interrupt_every: 0, error_at: None }, ..case.clone() });
        }
        if case.hash_seed != 0 {
            out.push(Case { hash_seed: 0, ..case.clone() });
        }
        out
    }
    fn rule(&self) -> &'static str {
        "cases = (stored document, fault plan, entry point, knobs): documents are the repo's sample policies / schemas / entities / contexts / JSON policies (copied to sim/corpus), generated ones (every operator, extension calls, escapes, i64 boundaries, nesting up to 48), cedar's own protobuf encodings of them and FFI call envelopes; the quick tier first ENUMERATES every truncation point and every single-bit flip in the first 64 bytes of every document of at most 2 KiB, for JSON documents every structure-aware fault at every node, and for the generated documents every position of a stray escape character, a stray quote and a lost byte, through the native entry point; then it samples 1-4 faults per case (torn write, bit flip, token overwrite/insert/loss, structure-aware loss or retyping of a JSON sub-document, zero range, duplicate range, drop range, splice with another document, lost write, invalid UTF-8, byte swap, stray escape character, document replaced by one of its own sub-documents, wrong-format delivery) plus reader faults (short reads, EINTR, hard error at byte k) and writer faults; each case runs parse -> {print, to_json, to_pst, proto round trip, format at 3 widths, validate strict/permissive/level, authorize 3 requests, link templates} or renders the error (Display, Debug, help, labels, miette graphical/narratable/JSON with source) in a crash-isolated worker process; non-trivial = case whose faulted document was still accepted by its entry point (so post-parse stages ran); distinct by hash of (entry point, faulted bytes)"
    }
    fn real_components(&self) -> Vec<&'static str> {
        vec!["every text/JSON/protobuf/FFI entry point of cedar_policy listed in DESIGN.md 4.6", "formatter, validator, authorizer, template linking, printers and converters on whatever parsed", "error rendering through miette (graphical, narratable, JSON) with source code attached", "impl Read / impl Write entry points (from_json_file, from_cedarschema_file, write_to_json)"]
    }
    fn simulated_components(&self) -> Vec<&'static str> {
        vec!["storage: byte-level fault plans between write and read", "reader/writer: short reads and writes, ErrorKind::Interrupted, hard error / zero-length write at byte k", "process: crash-isolated workers that report the case index before each case; watchdog with re-examination in isolation", "thread stack size (2 / 8 / 64 MiB) as a knob of the case"]
    }
    fn assumptions(&self) -> Vec<&'static str> {
        vec![
            "documents whose conservative nesting measure exceeds 48 after the faults are skipped (the property bounds nesting depth)",
            "whether a reader hard error surfaces as Err, and whether short reads / EINTR leave the result unchanged, are statistics, not part of the property",
            "a case that does not finish in 30 s is re-run alone with a 120 s limit; only a second timeout is reported (kind hang)",
        ]
    }
    fn reach_probes(&self) -> Vec<&'static str> {
        vec!["reach.parsed_ok", "reach.validated", "reach.evaluated_against_own_bundle", "fault.reader_hard_error", "fault.reader_interrupted"]
    }
}

pub fn warm_up() {
    let p = pools();
    let _ = p.seeds.len();
}
