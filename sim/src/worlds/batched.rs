//! World `batched` (C15): a simulated remote entity store behind the `EntityLoader` seam, with
//! delivery faults inside the documented contract, every iteration budget 0..=n+1, and the
//! ordinary authorizer over the same store as the reference.

use crate::core::*;
use crate::hashseam::on_fresh_thread;
use crate::rng::{mix, tag, Rng};
use cedar_policy::{Authorizer, Context, Decision, Entities, Entity, EntityLoader, EntityUid, PolicySet, Request, Schema, ValidationMode, Validator};
use cedar_policy_core::batched_evaluator::err::BatchedEvalError;
use serde::{Deserialize, Serialize};
use serde_json::{json, Value};
use std::collections::{BTreeMap, BTreeSet, HashMap, HashSet};
use std::str::FromStr;
use std::sync::OnceLock;

pub const SCHEMA_SRC: &str = r#"
entity Group in [Group];
entity User in [Group] = { level: Long, active: Bool, manager?: User, friends: Set<User>, home?: Folder, profile: { dept: String, boss?: User, ip: ipaddr } };
entity Folder in [Folder] = { admin?: User, depth: Long };
entity Doc in [Folder] = { owner: User, readers: Set<User>, parent?: Doc, public: Bool, team?: Group, score: decimal, meta?: { reviewers: Set<User>, lead?: User }, auditor?: A::Acct } tags String;
namespace A { entity Acct; }
namespace B { entity Acct; }
action anyop;
action readonly in [anyop];
action view in [readonly] appliesTo { principal: [User], resource: [Doc], context: { via?: User, n: Long, docs?: Set<Doc>, ext?: B::Acct } };
action edit in [anyop] appliesTo { principal: [User], resource: [Doc], context: { via?: User, n: Long, docs?: Set<Doc>, ext?: B::Acct } };
action browse in [readonly] appliesTo { principal: [User], resource: [Folder], context: { via?: User, n: Long, docs?: Set<Doc>, ext?: B::Acct } };
action peek in [readonly] appliesTo { principal: [User], resource: [Doc, Folder], context: { via?: User, n: Long, docs?: Set<Doc>, ext?: B::Acct } };
"#;

/// Shapes for the action that applies to two resource types (the policy is specialised per
/// request environment), and templates; `//link <principal|-> <resource|->` lines give the links.
pub const EXTRA_SHAPES: &[&str] = &[
    r#"permit(principal, action == Action::"peek", resource is Doc) when { resource.owner == principal };"#,
    r#"permit(principal, action == Action::"peek", resource is Folder) when { resource has admin && resource.admin == principal };"#,
    r#"forbid(principal, action == Action::"peek", resource) when { resource is Doc && !resource.public };"#,
    r#"permit(principal, action == Action::"peek", resource) when { if resource is Folder then resource.depth > 0 else resource.readers.contains(principal) };"#,
    r#"forbid(principal, action in Action::"readonly", resource is Folder) when { resource.depth > 1 && principal.level < 3 };"#,
    r#"permit(principal, action == Action::"peek", resource is Doc in Folder::"{F}") when { resource.owner.level > 1 };"#,
];
pub const TEMPLATE_SHAPES: &[(&str, bool, bool)] = &[
    (r#"permit(principal in ?principal, action, resource in ?resource);"#, true, true),
    (r#"permit(principal == ?principal, action in [Action::"view", Action::"edit"], resource) when { resource.owner == principal || resource.public };"#, true, false),
    (r#"forbid(principal, action in [Action::"view", Action::"edit"], resource in ?resource) when { !resource.public };"#, false, true),
    (r#"permit(principal in ?principal, action, resource) when { principal.level > 1 };"#, true, false),
    (r#"permit(principal == ?principal, action, resource == ?resource);"#, true, true),
    (r#"forbid(principal in ?principal, action == Action::"peek", resource is Doc in ?resource) when { resource.owner != principal };"#, true, true),
];

/// Policy shapes. `{U}`, `{G}`, `{D}`, `{F}` are replaced by literal ids drawn per policy.
pub const SHAPES: &[&str] = &[
    r#"permit(principal, action, resource) when { principal.level > 2 };"#,
    r#"permit(principal, action in [Action::"view", Action::"edit"], resource) when { resource.owner == principal };"#,
    r#"permit(principal, action, resource) when { principal has manager && principal.manager.level > 2 };"#,
    r#"permit(principal, action in [Action::"view", Action::"edit"], resource) when { principal in resource.owner.friends };"#,
    r#"forbid(principal, action in [Action::"view", Action::"edit"], resource) when { resource.readers.contains(principal) && !resource.public };"#,
    r#"permit(principal in Group::"{G}", action, resource);"#,
    r#"permit(principal, action == Action::"view", resource) when { User::"{U}" has manager && User::"{U}".manager == principal };"#,
    r#"permit(principal, action, resource) when { context has via && context.via.level > 1 };"#,
    r#"permit(principal, action, resource) when { principal has manager && principal.manager has manager && principal.manager.manager.level > 0 };"#,
    r#"permit(principal, action in [Action::"view", Action::"edit"], resource) when { resource has parent && resource.parent.owner == principal };"#,
    r#"forbid(principal, action in [Action::"view", Action::"edit"], resource) when { resource.owner.level < principal.level };"#,
    r#"permit(principal, action in [Action::"view", Action::"edit"], resource) when { (if principal.level > 3 then principal else resource.owner).level > 2 };"#,
    r#"permit(principal, action in [Action::"view", Action::"edit"], resource) when { resource.owner in Group::"{G}" };"#,
    r#"permit(principal, action in [Action::"view", Action::"edit"], resource) when { principal.friends.contains(resource.owner) };"#,
    r#"forbid(principal, action in [Action::"view", Action::"edit"], resource) when { resource.owner.friends.containsAny(principal.friends) };"#,
    r#"permit(principal, action in [Action::"view", Action::"edit"], resource) when { resource.hasTag("k") && resource.getTag("k") == "v" };"#,
    r#"permit(principal == User::"{U}", action, resource in Folder::"{F}");"#,
    r#"forbid(principal, action, resource) when { User::"{U}".level > principal.level };"#,
    r#"permit(principal, action == Action::"browse", resource) when { resource has admin && resource.admin == principal };"#,
    r#"permit(principal, action == Action::"browse", resource) when { principal has home && principal.home in resource };"#,
    r#"permit(principal, action, resource) when { context has docs && context.docs.contains(Doc::"{D}") && Doc::"{D}".owner.active };"#,
    r#"forbid(principal, action, resource) unless { principal.active };"#,
    r#"permit(principal, action in [Action::"view", Action::"edit"], resource) when { resource.owner has manager && resource.owner.manager has home && resource.owner.manager.home.depth > 0 };"#,
    r#"permit(principal, action, resource) when { [User::"{U}", User::"{U2}"].contains(principal) };"#,
    r#"permit(principal, action, resource) when { principal in [Group::"{G}", Group::"{G2}"] };"#,
    r#"forbid(principal, action in [Action::"view", Action::"edit"], resource) when { Doc::"{D}".public && resource == Doc::"{D}" };"#,
    r#"permit(principal, action in [Action::"view", Action::"edit"], resource) when { resource.owner.level + 9223372036854775800 > 0 };"#,
    r#"permit(principal is User in Group::"{G}", action, resource is Doc in Folder::"{F}");"#,
    r#"permit(principal, action, resource) when { principal.friends.containsAll([User::"{U}"]) || Folder::"{F}".depth > 1 };"#,
    r#"permit(principal, action in [Action::"view", Action::"edit"], resource) when { resource.owner has manager && resource.owner.manager.friends.contains(principal) };"#,
    r#"forbid(principal, action, resource) when { context.n > 5 && User::"{U}".active && !(principal.active) };"#,
    r#"permit(principal, action == Action::"browse", resource) when { resource in Folder::"{F}" && Folder::"{F}" has admin && Folder::"{F}".admin.level > 1 };"#,
    r#"permit(principal, action, resource) when { principal has manager && principal.manager has manager && principal.manager.manager has manager && principal.manager.manager.manager.level > 0 };"#,
    r#"permit(principal, action in [Action::"view", Action::"edit"], resource) when { resource has parent && resource.parent has parent && resource.parent.parent.owner.level > 1 };"#,
    r#"forbid(principal, action in [Action::"view", Action::"edit"], resource) when { resource.owner has home && resource.owner.home has admin && resource.owner.home.admin has manager && resource.owner.home.admin.manager.active };"#,
    r#"permit(principal, action, resource) when { principal has home && principal.home has admin && principal.home.admin.friends.contains(User::"{U}") };"#,
    r#"forbid(principal, action in [Action::"view", Action::"edit"], resource) when { resource.owner has manager && resource.owner.manager has manager && resource.owner.manager.manager == principal };"#,
    r#"permit(principal, action, resource) when { context has via && context.via has manager && context.via.manager has home && context.via.manager.home.depth >= 0 };"#,
    r#"permit(principal, action, resource) when { principal has manager && principal.manager has home };"#,
    r#"forbid(principal, action, resource) when { User::"{U}" has manager };"#,
    r#"permit(principal, action in [Action::"view", Action::"edit"], resource) when { resource.owner has manager };"#,
    r#"forbid(principal, action in [Action::"view", Action::"edit"], resource) when { resource has parent && resource.parent has parent && resource.parent.parent has parent };"#,
    r#"permit(principal, action, resource) when { context has via && context.via has home && context.via.home has admin };"#,
    r#"permit(principal, action, resource) when { Doc::"{D}".hasTag("k") || Folder::"{F}" has admin };"#,
    // action groups
    r#"permit(principal, action in Action::"readonly", resource) when { principal.level > 1 };"#,
    r#"forbid(principal, action in [Action::"anyop"], resource) when { principal has manager && principal.manager.level > 4 };"#,
    r#"permit(principal, action in [Action::"readonly", Action::"edit"], resource) when { action in Action::"anyop" && context.n >= 0 };"#,
    // membership in a group that is itself reached through an attribute (resolved in a later round)
    r#"permit(principal, action in [Action::"view", Action::"edit"], resource) when { resource has team && principal in resource.team };"#,
    r#"forbid(principal, action in [Action::"view", Action::"edit"], resource) when { resource has team && resource.owner in resource.team };"#,
    r#"permit(principal, action in [Action::"view", Action::"edit"], resource) when { resource has parent && resource.parent has team && principal in [resource.parent.team, Group::"{G}"] };"#,
    // an error-capable operand (attribute of an entity that may have no record) next to operands
    // that are already decided: the error must survive every simplification
    r#"forbid(principal, action in [Action::"view", Action::"edit"], resource) when { resource.owner.active || context.n > -1 };"#,
    r#"permit(principal, action in [Action::"view", Action::"edit"], resource) when { if resource.owner.active then context.n > -1 else context.n > -1 };"#,
    r#"forbid(principal, action, resource) when { if User::"{U}".active then context.n > -1 else context.n >= 0 };"#,
    r#"permit(principal, action, resource) when { principal.active || context.n > -1 };"#,
    r#"permit(principal, action in [Action::"view", Action::"edit"], resource) when { [resource.owner.level, 1].contains(1) };"#,
    r#"permit(principal, action in [Action::"view", Action::"edit"], resource) when { context.n > -1 || resource.owner.active };"#,
    r#"permit(principal, action in [Action::"view", Action::"edit"], resource) when { !(resource.owner.active && context.n < 0) };"#,
    r#"forbid(principal, action in [Action::"view", Action::"edit"], resource) when { (resource.owner.level > 100 || context.n > -1) && (User::"{U}".level < 100 || context.n > -1) };"#,
    r#"permit(principal, action in [Action::"view", Action::"edit"], resource) when { resource.owner == resource.owner && (if context.n > 100 then resource.owner.active else true) };"#,
    r#"permit(principal, action, resource) when { context has via && (context.via.active || context.n > -1) };"#,
    // membership decided late (the group is reached through a second hop), so that an entity can be delivered twice before
    r#"permit(principal, action in [Action::"view", Action::"edit"], resource) when { resource has parent && resource.parent has team && principal in resource.parent.team };"#,
    r#"forbid(principal, action in [Action::"view", Action::"edit"], resource) when { resource has parent && resource.parent has team && resource.owner in resource.parent.team };"#,
    r#"permit(principal, action in [Action::"view", Action::"edit"], resource) when { context has via && resource has parent && resource.parent has team && context.via in resource.parent.team };"#,
    r#"permit(principal, action in [Action::"view", Action::"edit"], resource) when { resource has parent && resource.parent has parent && resource.parent.parent has team && principal in resource.parent.parent.team };"#,
    // nested records holding entity references, extension values, `like`, `isEmpty`, record literals
    r#"permit(principal, action, resource) when { principal.profile has boss && principal.profile.boss.level > 1 };"#,
    r#"permit(principal, action in [Action::"view", Action::"edit"], resource) when { resource.owner.profile.dept like "eng*" };"#,
    r#"forbid(principal, action, resource) when { principal.profile.ip.isInRange(ip("10.0.0.0/8")) && !principal.active };"#,
    r#"permit(principal, action in [Action::"view", Action::"edit"], resource) when { resource.score.greaterThan(decimal("1.5")) };"#,
    r#"permit(principal, action in [Action::"view", Action::"edit"], resource) when { resource has meta && resource.meta.reviewers.contains(principal) };"#,
    r#"forbid(principal, action in [Action::"view", Action::"edit"], resource) when { resource has meta && resource.meta has lead && resource.meta.lead has manager && resource.meta.lead.manager == principal };"#,
    r#"permit(principal, action, resource) when { {a: principal.profile, b: 1}.a.dept == User::"{U}".profile.dept };"#,
    r#"permit(principal, action in [Action::"view", Action::"edit"], resource) when { resource.readers.isEmpty() || resource.owner.profile has boss };"#,
    r#"permit(principal, action, resource) when { User::"{U}".profile has boss && User::"{U}".profile.boss in Group::"{G}" };"#,
    r#"forbid(principal, action in [Action::"view", Action::"edit"], resource) when { resource.owner.profile.ip.isLoopback() };"#,
    r#"permit(principal, action in [Action::"view", Action::"edit"], resource) when { resource has meta && resource.meta has lead && resource.meta.lead.profile has boss && resource.meta.lead.profile.boss.profile.dept == principal.profile.dept };"#,
    r#"forbid(principal, action in [Action::"view", Action::"edit"], resource) when { resource.owner.profile has boss && resource.owner.profile.boss.friends.contains(principal) };"#,
    // a type test on something that has to be loaded first; entity types that share a base name
    r#"permit(principal, action in [Action::"view", Action::"edit"], resource) when { resource.owner is User };"#,
    r#"forbid(principal, action, resource) when { context has via && context.via has manager && !(context.via.manager is User) };"#,
    r#"permit(principal, action in [Action::"view", Action::"edit"], resource) when { (if principal.level > 3 then principal else resource.owner) is User };"#,
    r#"forbid(principal, action, resource) when { context has ext && context.ext is A::Acct };"#,
    r#"permit(principal, action in [Action::"view", Action::"edit"], resource) when { resource has auditor && resource.auditor is A::Acct && !(resource.auditor is B::Acct) };"#,
    r#"forbid(principal, action in [Action::"view", Action::"edit"], resource) when { resource has auditor && resource.auditor is B::Acct };"#,
    r#"permit(principal, action, resource) when { context has ext && context.ext is B::Acct };"#,
];

/// shapes from this index on are deep attribute chains; the generator favours them
pub const DEEP_FROM: usize = 32;

pub fn schema() -> &'static Schema {
    static S: OnceLock<Schema> = OnceLock::new();
    S.get_or_init(|| Schema::from_cedarschema_str(SCHEMA_SRC).expect("schema parses").0)
}

pub fn warm_up() {
    let _ = schema();
    // touch validator, TPE and authorizer lazies
    let ps = PolicySet::from_str(r#"permit(principal, action, resource) when { principal.level > 2 && context.n > 0 };"#).expect("p");
    let _ = Validator::new(schema().clone()).validate(&ps, ValidationMode::Strict);
}

#[derive(Clone, Debug, Serialize, Deserialize)]
pub struct Case {
    pub hash_seed: u64,
    pub replica_seed: Option<u64>,
    pub policies: Vec<String>,
    /// entities JSON (explicit `__entity` escapes)
    pub entities: Vec<Value>,
    pub principal: String,
    pub action: String,
    pub resource: String,
    pub context: Value,
    pub loader_seed: u64,
    /// weights of the per-round delivery faults: exact, over_deliver, prefetch, redeliver, over_deliver_absent, foreign_hash_reply
    pub fault_weights: Vec<u32>,
}

const FAULTS: [&str; 6] = ["exact", "over_deliver", "prefetch", "redeliver", "over_deliver_absent", "foreign_hash_reply"];

/// The simulated entity-store service behind the loader seam.
struct SimLoader<'a> {
    store: &'a Entities,
    all: Vec<EntityUid>,
    ghosts: Vec<EntityUid>,
    seed: u64,
    weights: &'a [u32],
    round: u64,
    delivered: BTreeSet<String>,
    fired: BTreeMap<&'static str, u64>,
    re_requested: u64,
    empty_rounds: u64,
    requests: Vec<Vec<String>>,
}

impl<'a> SimLoader<'a> {
    fn new(store: &'a Entities, ghosts: Vec<EntityUid>, seed: u64, weights: &'a [u32]) -> Self {
        let mut all: Vec<EntityUid> = store.iter().map(|e| e.uid()).filter(|u| u.type_name().to_string() != "Action").collect();
        all.sort_by_key(|u| u.to_string());
        SimLoader { store, all, ghosts, seed, weights, round: 0, delivered: BTreeSet::new(), fired: BTreeMap::new(), re_requested: 0, empty_rounds: 0, requests: vec![] }
    }
    fn refs_of(&self, e: &Entity) -> Vec<EntityUid> {
        // entity references inside attribute values (one hop), via the JSON form
        let mut out = vec![];
        if let Ok(v) = e.to_json_value() {
            collect_refs(v.get("attrs").unwrap_or(&Value::Null), &mut out);
        }
        out
    }
}

fn collect_refs(v: &Value, out: &mut Vec<EntityUid>) {
    match v {
        Value::Object(m) => {
            if let Some(Value::Object(e)) = m.get("__entity") {
                if let (Some(Value::String(t)), Some(Value::String(i))) = (e.get("type"), e.get("id")) {
                    if let Ok(u) = EntityUid::from_str(&format!("{t}::\"{i}\"")) {
                        out.push(u);
                    }
                }
            } else {
                for x in m.values() {
                    collect_refs(x, out);
                }
            }
        }
        Value::Array(a) => {
            for x in a {
                collect_refs(x, out);
            }
        }
        _ => {}
    }
}

impl EntityLoader for SimLoader<'_> {
    fn load_entities(&mut self, uids: &HashSet<EntityUid>) -> HashMap<EntityUid, Option<Entity>> {
        // the fault stream depends on the round number only, so runs with different budgets
        // see the same service behaviour on their common prefix
        let mut rng = Rng::new(mix(&[self.seed, self.round]));
        self.round += 1;
        let mut req: Vec<String> = uids.iter().map(|u| u.to_string()).collect();
        req.sort();
        if req.is_empty() {
            self.empty_rounds += 1;
        }
        for r in &req {
            if self.delivered.contains(r) {
                self.re_requested += 1;
            }
        }
        self.requests.push(req);
        let kind = FAULTS[rng.weighted(self.weights)];
        *self.fired.entry(kind).or_default() += 1;
        let mut reply: Vec<(EntityUid, Option<Entity>)> = vec![];
        let mut ordered: Vec<&EntityUid> = uids.iter().collect();
        ordered.sort_by_key(|u| u.to_string());
        for u in ordered {
            reply.push((u.clone(), self.store.get(u).cloned()));
        }
        let have: BTreeSet<String> = reply.iter().map(|(u, _)| u.to_string()).collect();
        match kind {
            "over_deliver" => {
                for _ in 0..rng.range(1, 3) {
                    if self.all.is_empty() {
                        break;
                    }
                    let u = rng.pick(&self.all).clone();
                    if !have.contains(&u.to_string()) && !self.delivered.contains(&u.to_string()) && !reply.iter().any(|(x, _)| x == &u) {
                        reply.push((u.clone(), self.store.get(&u).cloned()));
                    }
                }
            }
            "prefetch" => {
                let mut extra = vec![];
                for (_, e) in reply.iter() {
                    if let Some(e) = e {
                        extra.extend(self.refs_of(e));
                    }
                }
                for u in extra {
                    if !self.delivered.contains(&u.to_string()) && !reply.iter().any(|(x, _)| x == &u) {
                        let e = self.store.get(&u).cloned();
                        reply.push((u, e));
                    }
                }
            }
            "redeliver" => {
                let prev: Vec<String> = self.delivered.iter().cloned().collect();
                if !prev.is_empty() {
                    // sometimes the service sends everything it has sent before once more
                    let k = if rng.pct(40) { prev.len() } else { rng.range(1, 2) };
                    for j in 0..k {
                        let s = if k == prev.len() { &prev[j] } else { rng.pick(&prev) };
                        if let Ok(u) = EntityUid::from_str(s) {
                            if !reply.iter().any(|(x, _)| x == &u) {
                                let e = self.store.get(&u).cloned();
                                reply.push((u, e));
                            }
                        }
                    }
                }
            }
            "over_deliver_absent" => {
                if !self.ghosts.is_empty() {
                    let u = rng.pick(&self.ghosts).clone();
                    if !self.delivered.contains(&u.to_string()) && !reply.iter().any(|(x, _)| x == &u) {
                        reply.push((u, None));
                    }
                }
            }
            _ => {}
        }
        rng.shuffle(&mut reply);
        for (u, _) in &reply {
            self.delivered.insert(u.to_string());
        }
        if kind == "foreign_hash_reply" {
            // build the reply map on another thread, i.e. under another hash order
            let s = rng.next();
            let r2 = reply.clone();
            if let Ok(m) = on_fresh_thread(s, 16, move || r2.into_iter().collect::<HashMap<_, _>>()) {
                return m;
            }
        }
        reply.into_iter().collect()
    }
}

fn pk<'a>(rng: &mut Rng, xs: &'a [String]) -> &'a str {
    xs[rng.below(xs.len())].as_str()
}

fn uid_json(t: &str, i: &str) -> Value {
    json!({"__entity": {"type": t, "id": i}})
}

pub struct Batched;

struct Built {
    ps: PolicySet,
    store: Entities,
    req: Request,
    n_ids: usize,
    ghosts: Vec<EntityUid>,
}

fn build(case: &Case, obs: &mut Obs) -> Option<Built> {
    let schema = schema();
    let mut ps = PolicySet::new();
    let mut link_ids: Vec<String> = vec![];
    for (i, p) in case.policies.iter().enumerate() {
        if p.contains("?principal") || p.contains("?resource") {
            // a template and its links
            let t = match cedar_policy::Template::parse(Some(cedar_policy::PolicyId::new(format!("p{i}"))), p) {
                Ok(t) => t,
                Err(_) => {
                    obs.count("precondition_rejected.policy_parse");
                    return None;
                }
            };
            if ps.add_template(t).is_err() {
                return None;
            }
            for (k, line) in p.lines().filter(|l| l.starts_with("//link ")).enumerate() {
                let mut parts = line["//link ".len()..].split(' ');
                let mut vals = std::collections::HashMap::new();
                for slot in [cedar_policy::SlotId::principal(), cedar_policy::SlotId::resource()] {
                    match parts.next() {
                        Some("-") | None => {}
                        Some(u) => {
                            let Ok(u) = EntityUid::from_str(u) else { return None };
                            link_ids.push(u.to_string());
                            vals.insert(slot, u);
                        }
                    }
                }
                if ps.link(cedar_policy::PolicyId::new(format!("p{i}")), cedar_policy::PolicyId::new(format!("p{i}l{k}")), vals).is_err() {
                    obs.count("precondition_rejected.link");
                    return None;
                }
                obs.count("reach.template_links");
            }
            continue;
        }
        let pol = match cedar_policy::Policy::parse(Some(cedar_policy::PolicyId::new(format!("p{i}"))), p) {
            Ok(p) => p,
            Err(_) => {
                obs.count("precondition_rejected.policy_parse");
                return None;
            }
        };
        if ps.add(pol).is_err() {
            return None;
        }
    }
    let vr = Validator::new(schema.clone()).validate(&ps, ValidationMode::Strict);
    if !vr.validation_passed() {
        obs.count("precondition_rejected.validator");
        return None;
    }
    let store = match Entities::from_json_value(Value::Array(case.entities.clone()), Some(schema)) {
        Ok(s) => s,
        Err(_) => {
            obs.count("precondition_rejected.store");
            return None;
        }
    };
    let (p, a, r) = match (EntityUid::from_str(&case.principal), EntityUid::from_str(&case.action), EntityUid::from_str(&case.resource)) {
        (Ok(p), Ok(a), Ok(r)) => (p, a, r),
        _ => return None,
    };
    let ctx = match Context::from_json_value(case.context.clone(), Some((schema, &a))) {
        Ok(c) => c,
        Err(_) => {
            obs.count("precondition_rejected.context");
            return None;
        }
    };
    let req = match Request::new(p.clone(), a.clone(), r.clone(), ctx, Some(schema)) {
        Ok(r) => r,
        Err(_) => {
            obs.count("precondition_rejected.request");
            return None;
        }
    };
    // n = distinct entity ids occurring in the store, the request and the policies
    let mut ids: BTreeSet<String> = BTreeSet::new();
    let mut refs = vec![];
    collect_refs(&Value::Array(case.entities.clone()), &mut refs);
    collect_refs(&case.context, &mut refs);
    for e in &case.entities {
        if let Some(u) = e.get("uid") {
            if let (Some(Value::String(t)), Some(Value::String(i))) = (u.get("type"), u.get("id")) {
                ids.insert(format!("{t}::\"{i}\""));
            }
        }
        if let Some(Value::Array(ps)) = e.get("parents") {
            for u in ps {
                if let (Some(Value::String(t)), Some(Value::String(i))) = (u.get("type"), u.get("id")) {
                    ids.insert(format!("{t}::\"{i}\""));
                }
            }
        }
    }
    for u in refs {
        ids.insert(u.to_string());
    }
    ids.insert(p.to_string());
    ids.insert(a.to_string());
    ids.insert(r.to_string());
    for l in link_ids {
        ids.insert(l);
    }
    for pol in ps.policies() {
        // literal uids of the policy, read off its JSON form
        if let Ok(j) = pol.to_json() {
            let mut lits = vec![];
            collect_policy_uids(&j, &mut lits);
            for l in lits {
                ids.insert(l);
            }
        }
    }
    let stored: BTreeSet<String> = store.iter().map(|e| e.uid().to_string()).collect();
    let ghosts: Vec<EntityUid> = ids.iter().filter(|i| !stored.contains(*i) && !i.starts_with("Action::")).filter_map(|i| EntityUid::from_str(i).ok()).collect();
    Some(Built { ps, store, req, n_ids: ids.len(), ghosts })
}

fn collect_policy_uids(v: &Value, out: &mut Vec<String>) {
    match v {
        Value::Object(m) => {
            // EST: {"entity": {"type":..,"id":..}}, {"entities":[..]}, {"Value": {"__entity": {...}}}
            if let (Some(Value::String(t)), Some(Value::String(i)), true) = (m.get("type"), m.get("id"), m.len() == 2) {
                out.push(format!("{t}::\"{i}\""));
            }
            for x in m.values() {
                collect_policy_uids(x, out);
            }
        }
        Value::Array(a) => {
            for x in a {
                collect_policy_uids(x, out);
            }
        }
        _ => {}
    }
}

fn outcome_str(r: &Result<Decision, BatchedEvalError>) -> String {
    match r {
        Ok(Decision::Allow) => "Allow".into(),
        Ok(Decision::Deny) => "Deny".into(),
        Err(BatchedEvalError::InsufficientIterations(_)) => "Insufficient".into(),
        Err(e) => format!("Error({})", err_class(e)),
    }
}

fn err_class(e: &BatchedEvalError) -> &'static str {
    match e {
        BatchedEvalError::TPE(_) => "TPE",
        BatchedEvalError::RequestValidation(_) => "RequestValidation",
        BatchedEvalError::PartialRequest(_) => "PartialRequest",
        BatchedEvalError::Entities(_) => "Entities",
        BatchedEvalError::PartialValueToValue(_) => "PartialValueToValue",
        BatchedEvalError::MissingEntities(_) => "MissingEntities",
        BatchedEvalError::InsufficientIterations(_) => "InsufficientIterations",
        _ => "other",
    }
}

/// Returns (violation, vector of outcomes per budget)
fn run_scenario(case: &Case, obs: &mut Obs, replica: usize) -> (Option<Violation>, Vec<String>) {
    let Some(b) = build(case, obs) else {
        return (None, vec![]);
    };
    let schema = schema();
    let reference = Authorizer::new().is_authorized(&b.req, &b.ps, &b.store);
    let want = reference.decision();
    obs.event(format!("reference {:?} n={}", want, b.n_ids));
    let mut outcomes = vec![];
    let mut decided: Option<(usize, Decision)> = None;
    let mut fired_total: BTreeMap<&'static str, u64> = BTreeMap::new();
    let mut max_rounds = 0;
    for budget in 0..=(b.n_ids + 1) {
        let mut loader = SimLoader::new(&b.store, b.ghosts.clone(), case.loader_seed, &case.fault_weights);
        let r = b.ps.is_authorized_batched(&b.req, schema, &mut loader, budget as u32);
        obs.count("evaluations");
        obs.count("logical_steps");
        obs.add("loader_rounds", loader.round);
        obs.add("stat.loader_re_requested_ids", loader.re_requested);
        obs.add("stat.loader_empty_rounds", loader.empty_rounds);
        max_rounds = max_rounds.max(loader.round);
        if budget == b.n_ids + 1 {
            for (k, v) in &loader.fired {
                *fired_total.entry(k).or_default() += *v;
            }
        }
        let o = outcome_str(&r);
        obs.event(format!("budget {budget} -> {o} rounds={} requests={:?}", loader.round, loader.requests));
        outcomes.push(o.clone());
        let redelivered = loader.fired.get("redeliver").copied().unwrap_or(0) > 0;
        let sig_suffix = if redelivered { " after redeliver" } else { "" };
        let check = |v: Violation, obs: &mut Obs| -> Option<Violation> {
            if obs.is_known(&v) {
                None
            } else {
                Some(v)
            }
        };
        match &r {
            Ok(d) => {
                if *d != want {
                    let v = Violation::new("wrong_decision", format!("budget {budget} replica{replica}{sig_suffix}"), budget, format!("{want:?} (ordinary authorization over the same store)"), format!("{d:?}"));
                    if let Some(v) = check(v, obs) {
                        return (Some(v), outcomes);
                    }
                }
                if let Some((b0, d0)) = decided {
                    if d0 != *d {
                        let v = Violation::new("not_monotone", format!("budget {budget} replica{replica}{sig_suffix}"), budget, format!("{d0:?} as at budget {b0}"), format!("{d:?}"));
                        if let Some(v) = check(v, obs) {
                            return (Some(v), outcomes);
                        }
                    }
                } else {
                    decided = Some((budget, *d));
                    obs.add("stat.first_deciding_budget_sum", budget as u64);
                }
            }
            Err(BatchedEvalError::InsufficientIterations(_)) => {
                if let Some((b0, d0)) = decided {
                    let v = Violation::new("not_monotone", format!("budget {budget} replica{replica}{sig_suffix}"), budget, format!("{d0:?} as at budget {b0}"), "InsufficientIterations");
                    if let Some(v) = check(v, obs) {
                        return (Some(v), outcomes);
                    }
                }
                if budget == b.n_ids + 1 {
                    let v = Violation::new("no_decision_at_full_budget", format!("budget n+1 replica{replica}{sig_suffix}"), budget, format!("a decision with budget {} > n = {} distinct ids", budget, b.n_ids), "InsufficientIterations");
                    if let Some(v) = check(v, obs) {
                        return (Some(v), outcomes);
                    }
                }
            }
            Err(e) => {
                let v = Violation::new("unexpected_error", format!("{} replica{replica}{sig_suffix}", err_class(e)), budget, "a decision or InsufficientIterations (inputs are validated and conformant, loader returns the store's data)", format!("{e}"));
                if let Some(v) = check(v, obs) {
                    return (Some(v), outcomes);
                }
            }
        }
    }
    for (k, v) in fired_total {
        obs.add(&format!("fault.{k}"), v);
    }
    if !b.ghosts.is_empty() {
        obs.count("reach.store_with_absent_entities");
    }
    if max_rounds >= 2 {
        obs.count("reach.needs_two_or_more_rounds");
        let fp = mix(&[tag(&case.policies.join("\n")), tag(&serde_json::to_string(&case.entities).unwrap_or_default()), tag(&case.principal), tag(&case.resource), tag(&case.action), case.loader_seed]);
        obs.mark("nontrivial", fp);
    }
    if max_rounds >= 3 {
        obs.count("reach.needs_three_or_more_rounds");
    }
    if decided.is_some_and(|(b0, _)| b0 == 0) {
        obs.count("reach.decided_without_loading");
    }
    obs.mark("schedules", mix(&[tag(&outcomes.join(",")), case.hash_seed, case.loader_seed]));
    (None, outcomes)
}

pub struct StoreIds {
    pub users: Vec<String>,
    pub groups: Vec<String>,
    pub docs: Vec<String>,
    pub folders: Vec<String>,
}

/// A schema-conformant store by construction (some referenced entities deliberately have no record).
pub fn gen_store_ids(rng: &mut Rng) -> (Vec<Value>, StoreIds) {
    let nu = rng.range(1, 5);
    let ng = rng.range(0, 3);
    let nd = rng.range(1, 4);
    let nf = rng.range(0, 3);
    // ids that may be referenced; some of them get no record (ghosts)
    let users: Vec<String> = (0..nu + 2).map(|i| format!("u{i}")).collect();
    let groups: Vec<String> = (0..ng + 1).map(|i| format!("g{i}")).collect();
    let docs: Vec<String> = (0..nd + 1).map(|i| format!("d{i}")).collect();
    let folders: Vec<String> = (0..nf + 1).map(|i| format!("f{i}")).collect();
    let mut ents = vec![];
    for (i, g) in groups.iter().enumerate().take(ng) {
        let mut ps = vec![];
        for h in groups.iter().skip(i + 1) {
            if rng.pct(40) {
                ps.push(json!({"type": "Group", "id": h}));
            }
        }
        ents.push(json!({"uid": {"type": "Group", "id": g}, "attrs": {}, "parents": ps}));
    }
    for (i, f) in folders.iter().enumerate().take(nf) {
        let mut ps = vec![];
        for h in folders.iter().skip(i + 1) {
            if rng.pct(50) {
                ps.push(json!({"type": "Folder", "id": h}));
            }
        }
        let mut attrs = serde_json::Map::new();
        attrs.insert("depth".into(), json!(rng.below(4) as i64));
        if rng.pct(70) {
            attrs.insert("admin".into(), uid_json("User", pk(&mut *rng, &users)));
        }
        ents.push(json!({"uid": {"type": "Folder", "id": f}, "attrs": attrs, "parents": ps}));
    }
    for u in users.iter().take(nu) {
        let mut attrs = serde_json::Map::new();
        attrs.insert("level".into(), json!(rng.below(6) as i64));
        attrs.insert("active".into(), json!(rng.pct(70)));
        if rng.pct(80) {
            attrs.insert("manager".into(), uid_json("User", pk(&mut *rng, &users)));
        }
        let mut fr = vec![];
        for _ in 0..rng.below(3) {
            fr.push(uid_json("User", pk(&mut *rng, &users)));
        }
        attrs.insert("friends".into(), Value::Array(fr));
        if rng.pct(60) {
            attrs.insert("home".into(), uid_json("Folder", pk(&mut *rng, &folders)));
        }
        let mut prof = serde_json::Map::new();
        prof.insert("dept".into(), json!(*rng.pick(&["eng", "engine", "ops", ""])));
        if rng.pct(60) {
            prof.insert("boss".into(), uid_json("User", pk(&mut *rng, &users)));
        }
        prof.insert("ip".into(), json!({"__extn": {"fn": "ip", "arg": *rng.pick(&["10.1.2.3", "127.0.0.1", "192.168.0.1/24", "::1"])}}));
        attrs.insert("profile".into(), Value::Object(prof));
        let mut ps = vec![];
        for g in &groups {
            if rng.pct(35) {
                ps.push(json!({"type": "Group", "id": g}));
            }
        }
        ents.push(json!({"uid": {"type": "User", "id": u}, "attrs": attrs, "parents": ps}));
    }
    for d in docs.iter().take(nd) {
        let mut attrs = serde_json::Map::new();
        attrs.insert("owner".into(), uid_json("User", pk(&mut *rng, &users)));
        let mut rd = vec![];
        for _ in 0..rng.below(3) {
            rd.push(uid_json("User", pk(&mut *rng, &users)));
        }
        attrs.insert("readers".into(), Value::Array(rd));
        attrs.insert("public".into(), json!(rng.pct(50)));
        if rng.pct(35) {
            attrs.insert("auditor".into(), uid_json("A::Acct", *rng.pick(&["x0", "x1"])));
        }
        attrs.insert("score".into(), json!({"__extn": {"fn": "decimal", "arg": *rng.pick(&["0.5", "1.5", "2.25", "-3.0"])}}));
        if rng.pct(55) {
            let mut meta = serde_json::Map::new();
            let mut rv = vec![];
            for _ in 0..rng.below(3) {
                rv.push(uid_json("User", pk(&mut *rng, &users)));
            }
            meta.insert("reviewers".into(), Value::Array(rv));
            if rng.pct(60) {
                meta.insert("lead".into(), uid_json("User", pk(&mut *rng, &users)));
            }
            attrs.insert("meta".into(), Value::Object(meta));
        }
        if rng.pct(60) {
            attrs.insert("parent".into(), uid_json("Doc", pk(&mut *rng, &docs)));
        }
        if rng.pct(60) {
            attrs.insert("team".into(), uid_json("Group", pk(&mut *rng, &groups)));
        }
        let mut ps = vec![];
        for f in &folders {
            if rng.pct(35) {
                ps.push(json!({"type": "Folder", "id": f}));
            }
        }
        let mut e = json!({"uid": {"type": "Doc", "id": d}, "attrs": attrs, "parents": ps});
        if rng.pct(40) {
            e["tags"] = json!({"k": if rng.pct(50) { "v" } else { "w" }});
        }
        ents.push(e);
    }
    if rng.pct(50) {
        ents.push(json!({"uid": {"type": "A::Acct", "id": "x0"}, "attrs": {}, "parents": []}));
    }
    rng.shuffle(&mut ents);
    (ents, StoreIds { users, groups, docs, folders })
}

pub fn gen_store(rng: &mut Rng) -> Vec<Value> {
    gen_store_ids(rng).0
}

fn gen_case(seed: u64) -> Case {
    let mut rng = Rng::sub(seed, "workload");
    let mut hs = Rng::sub(seed, "hashkeys");
    let mut fs = Rng::sub(seed, "faults");
    let (mut ents, ids) = gen_store_ids(&mut rng);
    let StoreIds { users, groups, docs, folders } = ids;
    // swarm: "membership" scenarios have a chain of groups, users only in the lowest one, documents
    // whose team is a higher one, and policies that test membership
    let membership = rng.pct(25);
    if membership {
        for e in ents.iter_mut() {
            let ty = e["uid"]["type"].as_str().unwrap_or("").to_string();
            let id = e["uid"]["id"].as_str().unwrap_or("").to_string();
            match ty.as_str() {
                "Group" => {
                    let k = groups.iter().position(|g| *g == id).unwrap_or(0);
                    e["parents"] = if k + 1 < groups.len() { json!([{"type": "Group", "id": groups[k + 1]}]) } else { json!([]) };
                }
                "User" => e["parents"] = json!([{"type": "Group", "id": groups[0]}]),
                "Doc" => {
                    let g = &groups[rng.range(groups.len() / 2, groups.len() - 1)];
                    e["attrs"]["team"] = uid_json("Group", g);
                    if rng.pct(60) {
                        e["attrs"]["parent"] = uid_json("Doc", pk(&mut rng, &docs));
                    }
                }
                _ => {}
            }
        }
    }
    const MEMBERSHIP_SHAPES: [usize; 14] = [5, 24, 27, 47, 48, 49, 49, 60, 60, 61, 61, 62, 63, 63];
    let np = rng.range(1, 6);
    let mut policies = vec![];
    for _ in 0..np {
        let s = if membership && rng.pct(70) { SHAPES[*rng.pick(&MEMBERSHIP_SHAPES)] } else if rng.pct(35) { SHAPES[rng.range(DEEP_FROM, SHAPES.len() - 1)] } else { *rng.pick(SHAPES) };
        // swarm: some policies come from the shapes for the two-resource-type action, some are templates with 1-3 links
        let mut tlinks = String::new();
        let s = if !membership && rng.pct(12) {
            *rng.pick(EXTRA_SHAPES)
        } else if rng.pct(if membership { 4 } else { 10 }) {
            let (t, sp, sr) = *rng.pick(TEMPLATE_SHAPES);
            for _ in 0..rng.range(1, 3) {
                let pv = if sp { if rng.pct(50) { format!("Group::\"{}\"", pk(&mut rng, &groups)) } else { format!("User::\"{}\"", pk(&mut rng, &users)) } } else { "-".to_string() };
                let rv = if sr { if rng.pct(60) { format!("Folder::\"{}\"", pk(&mut rng, &folders)) } else { format!("Doc::\"{}\"", pk(&mut rng, &docs)) } } else { "-".to_string() };
                tlinks.push_str(&format!("\n//link {pv} {rv}"));
            }
            t
        } else {
            s
        };
        let p = s
            .replace("{U2}", pk(&mut rng, &users))
            .replace("{U}", pk(&mut rng, &users))
            .replace("{G2}", pk(&mut rng, &groups))
            .replace("{G}", pk(&mut rng, &groups))
            .replace("{D}", pk(&mut rng, &docs))
            .replace("{F}", pk(&mut rng, &folders));
        policies.push(format!("{p}{tlinks}"));
    }
    let action = *rng.pick(&["view", "view", "edit", "browse", "peek", "peek"]);
    let resource = if action == "browse" || (action == "peek" && rng.pct(50)) { format!("Folder::\"{}\"", pk(&mut rng, &folders)) } else { format!("Doc::\"{}\"", pk(&mut rng, &docs)) };
    let mut ctx = serde_json::Map::new();
    ctx.insert("n".into(), json!(rng.below(10) as i64));
    if rng.pct(50) {
        ctx.insert("via".into(), uid_json("User", pk(&mut rng, &users)));
    }
    if rng.pct(30) {
        ctx.insert("ext".into(), uid_json("B::Acct", *rng.pick(&["x0", "x1"])));
    }
    if rng.pct(40) {
        let mut ds = vec![];
        for _ in 0..rng.range(1, 2) {
            ds.push(uid_json("Doc", pk(&mut rng, &docs)));
        }
        ctx.insert("docs".into(), Value::Array(ds));
    }
    // swarm: which delivery faults are enabled in this run
    let mut fault_weights: Vec<u32> = (0..6).map(|i| if i == 0 { 4 } else if fs.pct(45) { fs.range(1, 4) as u32 } else { 0 }).collect();
    // membership scenarios are where a re-delivered entity matters (its ancestors were computed
    // when it first arrived): most of them get a loader that re-delivers often
    if membership && fs.pct(70) {
        fault_weights[3] = 5;
    }
    Case {
        hash_seed: hs.next(),
        replica_seed: if rng.pct(20) { Some(hs.next()) } else { None },
        policies,
        entities: ents,
        principal: format!("User::\"{}\"", pk(&mut rng, &users)),
        action: format!("Action::\"{action}\""),
        resource,
        context: Value::Object(ctx),
        loader_seed: fs.next(),
        fault_weights,
    }
}

impl World for Batched {
    type Case = Case;
    fn property(&self) -> &'static str {
        "C15"
    }
    fn name(&self) -> &'static str {
        "batched"
    }
    fn runs(&self, tier: Tier) -> u64 {
        match tier {
            Tier::Quick => 50_000,
            Tier::Thorough => 1_000_000,
        }
    }
    fn generate(&self, seed: u64, _tier: Tier) -> Case {
        gen_case(seed)
    }
    fn hash_seed(&self, case: &Case) -> u64 {
        case.hash_seed
    }
    fn execute(&self, case: &Case, obs: &mut Obs) -> Option<Violation> {
        let (v, outcomes) = run_scenario(case, obs, 0);
        if v.is_some() {
            return v;
        }
        if let Some(s) = case.replica_seed {
            // the same scenario under another hash order must give the same outcome per budget
            let c = case.clone();
            let known = obs.known.clone();
            let prop = obs.property.clone();
            obs.count("fault.hash_order_replica");
            let r = on_fresh_thread(s, 16, move || {
                let mut o = Obs::new(&prop, known, false);
                let (v, out) = run_scenario(&c, &mut o, 1);
                (v, out, o.known_hits)
            });
            match r {
                Ok((Some(v), _, _)) => return Some(v),
                Ok((None, out2, hits)) => {
                    obs.known_hits.extend(hits);
                    // outcomes after a known finding may legitimately differ (it aborts a call); otherwise they must agree
                    if out2 != outcomes && obs.known_hits.is_empty() {
                        // Only decisions are promised to agree; which budget first suffices is not stated by the property, record it.
                        obs.count("stat.replica_outcome_vectors_differ");
                    }
                }
                Err(msg) => return Some(Violation::new("panic", format!("panic in replica: {}", msg.chars().take(120).collect::<String>()), usize::MAX, "no panic", msg)),
            }
        }
        None
    }
    fn shrink(&self, case: &Case) -> Vec<Case> {
        let mut out = vec![];
        if case.replica_seed.is_some() {
            out.push(Case { replica_seed: None, ..case.clone() });
            out.push(Case { hash_seed: case.replica_seed.unwrap_or(0), replica_seed: None, ..case.clone() });
        }
        for p in list_shrinks(&case.policies) {
            if !p.is_empty() {
                out.push(Case { policies: p, ..case.clone() });
            }
        }
        for e in list_shrinks(&case.entities) {
            out.push(Case { entities: e, ..case.clone() });
        }
        // fewer fault kinds
        for i in 1..case.fault_weights.len() {
            if case.fault_weights[i] != 0 {
                let mut w = case.fault_weights.clone();
                w[i] = 0;
                out.push(Case { fault_weights: w, ..case.clone() });
            }
        }
        // drop optional attributes / parents / set members of entities
        for (i, e) in case.entities.iter().enumerate() {
            if let Some(Value::Object(attrs)) = e.get("attrs") {
                for k in attrs.keys() {
                    if matches!(k.as_str(), "manager" | "home" | "admin" | "parent" | "team") {
                        let mut es = case.entities.clone();
                        if let Some(Value::Object(a)) = es[i].get_mut("attrs") {
                            a.remove(k);
                        }
                        out.push(Case { entities: es, ..case.clone() });
                    }
                    if matches!(k.as_str(), "friends" | "readers") && attrs[k].as_array().is_some_and(|a| !a.is_empty()) {
                        let mut es = case.entities.clone();
                        es[i]["attrs"][k] = json!([]);
                        out.push(Case { entities: es, ..case.clone() });
                    }
                }
            }
            if e.get("parents").and_then(|p| p.as_array()).is_some_and(|p| !p.is_empty()) {
                let mut es = case.entities.clone();
                es[i]["parents"] = json!([]);
                out.push(Case { entities: es, ..case.clone() });
            }
            if e.get("tags").is_some() {
                let mut es = case.entities.clone();
                if let Some(o) = es[i].as_object_mut() {
                    o.remove("tags");
                }
                out.push(Case { entities: es, ..case.clone() });
            }
        }
        if let Some(o) = case.context.as_object() {
            for k in ["via", "docs"] {
                if o.contains_key(k) {
                    let mut c = o.clone();
                    c.remove(k);
                    out.push(Case { context: Value::Object(c), ..case.clone() });
                }
            }
        }
        if case.hash_seed != 0 {
            out.push(Case { hash_seed: 0, ..case.clone() });
        }
        if case.loader_seed != 0 {
            out.push(Case { loader_seed: 0, ..case.clone() });
        }
        out
    }
    fn rule(&self) -> &'static str {
        "cases = seeded scenarios (1-6 policies instantiated from 60 shapes and accepted by the real strict validator; stores of <=14 entities accepted by schema-based from_json; requests accepted by Request::new with schema; referenced-but-absent entities frequent) x a seeded delivery-fault plan for the simulated entity-store service x every budget 0..=n+1; evaluations = individual is_authorized_batched calls compared with Authorizer::is_authorized over the same store; non-trivial = scenario that needs >=2 loader rounds at full budget; distinct by hash of (policies, store, request, loader seed)"
    }
    fn real_components(&self) -> Vec<&'static str> {
        vec!["PolicySet::is_authorized_batched (batched_evaluator loop, TPE evaluator, residuals, tpe::Response)", "Authorizer::is_authorized (reference)", "Validator (strict) / Entities::from_json_value(schema) / Request::new(schema) as precondition checks"]
    }
    fn simulated_components(&self) -> Vec<&'static str> {
        vec!["entity-store service behind the EntityLoader seam (exact, over-delivery, prefetch, re-delivery, absent entities, reply built under a foreign hash order)", "iteration budget (enumerated 0..=n+1)", "hash-map iteration order (getrandom seam)"]
    }
    fn assumptions(&self) -> Vec<&'static str> {
        vec![
            "a loader may return entities it already returned in an earlier round ('loading more than requested is allowed')",
            "n counts every entity id occurring anywhere in the user-supplied store (uids, parents, attribute values), the request (incl. action and context) and the policies",
            "how often the loader is asked again for an id, and which budget first suffices, are statistics, not promises",
        ]
    }
    fn reach_probes(&self) -> Vec<&'static str> {
        vec!["reach.needs_two_or_more_rounds", "reach.needs_three_or_more_rounds", "reach.store_with_absent_entities", "reach.decided_without_loading"]
    }
}
