pub mod hierarchy;
