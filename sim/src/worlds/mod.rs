pub mod batched;
pub mod hierarchy;
