pub mod authz;
pub mod batched;
pub mod hierarchy;
pub mod policyset;
