pub mod authz;
pub mod batched;
pub mod frontends;
pub mod frontends_cli;
pub mod hierarchy;
pub mod policyset;
pub mod storagefaults;
