//! Common machinery: world trait, observations, violations, the parallel runner, the
//! minimiser, replay files and evidence files.

use crate::hashseam::on_fresh_thread;
use crate::rng::{mix, tag, Rng};
use serde::{de::DeserializeOwned, Deserialize, Serialize};
use serde_json::{json, Value};
use std::collections::{BTreeMap, BTreeSet};
use std::sync::atomic::{AtomicBool, AtomicU64, Ordering};
use std::sync::{Arc, Mutex};
use std::time::Instant;

pub const DEFAULT_SEED: u64 = 20260923;

#[derive(Clone, Copy, Debug, PartialEq, Eq)]
pub enum Tier {
    Quick,
    Thorough,
}
impl Tier {
    pub fn name(self) -> &'static str {
        match self {
            Tier::Quick => "quick",
            Tier::Thorough => "thorough",
        }
    }
}

#[derive(Clone, Debug, Serialize, Deserialize, PartialEq)]
pub struct Violation {
    /// violation class; minimisation preserves it, replay must reproduce it
    pub kind: String,
    /// the specific call site / input shape (matched against known-findings.json)
    pub signature: String,
    pub step: usize,
    pub expected: String,
    pub observed: String,
}

impl Violation {
    pub fn new(kind: &str, signature: impl Into<String>, step: usize, expected: impl Into<String>, observed: impl Into<String>) -> Self {
        Violation { kind: kind.to_string(), signature: signature.into(), step, expected: expected.into(), observed: observed.into() }
    }
}

#[derive(Clone, Debug, Deserialize)]
pub struct KnownFinding {
    pub property: String,
    pub kind: String,
    /// substring that must occur in the violation's signature
    #[serde(rename = "match")]
    pub matcher: String,
    pub what: String,
    #[serde(default)]
    pub status: String, // "open" | "fixed"
}

pub fn load_known_findings(verif_dir: &str) -> Vec<KnownFinding> {
    let p = format!("{verif_dir}/known-findings.json");
    match std::fs::read_to_string(&p) {
        Ok(s) => {
            let v: Value = serde_json::from_str(&s).unwrap_or_else(|e| harness_error(&format!("bad {p}: {e}")));
            let arr = v.get("findings").cloned().unwrap_or(Value::Array(vec![]));
            serde_json::from_value::<Vec<KnownFinding>>(arr).unwrap_or_else(|e| harness_error(&format!("bad {p}: {e}")))
        }
        Err(_) => vec![],
    }
}

pub fn harness_error(msg: &str) -> ! {
    eprintln!("HARNESS-ERROR: {msg}");
    println!("HARNESS-ERROR: {msg}");
    std::process::exit(2);
}

/// Per-run observations. Everything here is merged commutatively across runs, so the totals do
/// not depend on worker count or completion order.
#[derive(Default, Clone, Debug)]
pub struct Obs {
    pub counters: BTreeMap<String, u64>,
    /// named sets of fingerprints (distinct model states, distinct schedules, non-trivial cases ...)
    pub sets: BTreeMap<String, BTreeSet<u64>>,
    /// digest of the event log of the run (order sensitive)
    pub digest: u64,
    /// full event log, only collected when `keep_log`
    pub log: Vec<String>,
    pub keep_log: bool,
    /// known findings hit in this run: (kind, signature)
    pub known_hits: BTreeSet<(String, String, String)>,
    pub known: Arc<Vec<KnownFinding>>,
    pub property: String,
}

impl Obs {
    pub fn new(property: &str, known: Arc<Vec<KnownFinding>>, keep_log: bool) -> Self {
        Obs { property: property.to_string(), known, keep_log, ..Default::default() }
    }
    #[inline]
    pub fn count(&mut self, name: &str) {
        self.add(name, 1);
    }
    #[inline]
    pub fn add(&mut self, name: &str, n: u64) {
        if let Some(c) = self.counters.get_mut(name) {
            *c += n;
        } else {
            self.counters.insert(name.to_string(), n);
        }
    }
    pub fn mark(&mut self, set: &str, fp: u64) {
        if let Some(s) = self.sets.get_mut(set) {
            s.insert(fp);
        } else {
            let mut s = BTreeSet::new();
            s.insert(fp);
            self.sets.insert(set.to_string(), s);
        }
    }
    /// Record an observable event (feeds the determinism digest; logging never draws randomness).
    pub fn event(&mut self, e: impl AsRef<str>) {
        let e = e.as_ref();
        self.digest = mix(&[self.digest, tag(e)]);
        if self.keep_log {
            self.log.push(e.to_string());
        }
    }
    /// Is this violation a listed (open) known finding? If so it is recorded and the caller
    /// should carry on as if the step had passed.
    pub fn is_known(&mut self, v: &Violation) -> bool {
        for k in self.known.iter() {
            if k.status != "fixed" && k.property == self.property && k.kind == v.kind && v.signature.contains(&k.matcher) {
                self.known_hits.insert((k.kind.clone(), k.matcher.clone(), k.what.clone()));
                self.count("known_finding_hits");
                return true;
            }
        }
        false
    }
    pub fn merge(&mut self, o: &Obs) {
        for (k, v) in &o.counters {
            *self.counters.entry(k.clone()).or_default() += *v;
        }
        for (k, v) in &o.sets {
            self.sets.entry(k.clone()).or_default().extend(v.iter().copied());
        }
        self.known_hits.extend(o.known_hits.iter().cloned());
    }
}

/// A world = generator + interpreter + reference model for one property.
pub trait World: Sync + Send + 'static {
    type Case: Serialize + DeserializeOwned + Clone + Send + Sync + std::fmt::Debug + 'static;
    fn property(&self) -> &'static str;
    fn name(&self) -> &'static str;
    fn level(&self) -> &'static str {
        "exploration"
    }
    /// number of runs for a tier (fixed counts; never a time box)
    fn runs(&self, tier: Tier) -> u64;
    /// Turn the PRNG stream into an explicit case (op list + fault plan + hash seeds).
    fn generate(&self, seed: u64, tier: Tier) -> Self::Case;
    /// hash seed of the primary thread of the case
    fn hash_seed(&self, case: &Self::Case) -> u64;
    /// Apply the case to real cedar objects and the model in lock step. Pure function of
    /// (case, code under test). Called on a fresh thread whose hash keys derive from
    /// `hash_seed(case)`.
    fn execute(&self, case: &Self::Case, obs: &mut Obs) -> Option<Violation>;
    /// Simpler variants of a failing case, most aggressive first.
    fn shrink(&self, case: &Self::Case) -> Vec<Self::Case>;
    /// words describing non-triviality rule etc.
    fn rule(&self) -> &'static str;
    fn real_components(&self) -> Vec<&'static str>;
    fn simulated_components(&self) -> Vec<&'static str>;
    fn assumptions(&self) -> Vec<&'static str>;
    /// name of the set in Obs that counts distinct non-trivial cases
    fn nontrivial_set(&self) -> &'static str {
        "nontrivial"
    }
    /// name of the counter that counts evaluations
    fn evaluations_counter(&self) -> &'static str {
        "evaluations"
    }
    /// reach probes that must not stay at zero in the thorough tier (warning only)
    fn reach_probes(&self) -> Vec<&'static str> {
        vec![]
    }
    fn stack_mib(&self) -> usize {
        16
    }
    /// stack size for the thread that executes this case
    fn case_stack_mib(&self, _case: &Self::Case) -> usize {
        self.stack_mib()
    }
    /// generation that may depend on the run index (for enumerated prefixes of the case space)
    fn generate_indexed(&self, _index: u64, seed: u64, tier: Tier) -> Self::Case {
        self.generate(seed, tier)
    }
    /// short description of a case for violation signatures (matched against known-findings.json)
    fn describe(&self, _case: &Self::Case) -> String {
        String::new()
    }
    /// cases may kill or hang the process executing them: workers report the index of the case
    /// they are about to start, deaths are attributed to it, and a watchdog re-examines slow
    /// cases in isolation
    fn crash_isolated(&self) -> bool {
        false
    }
}

pub struct RunOutcome {
    pub obs: Obs,
    pub violation: Option<Violation>,
}

/// Execute one case on a fresh thread with owned hash keys.
pub fn run_case<W: World>(world: &Arc<W>, case: &W::Case, known: &Arc<Vec<KnownFinding>>, keep_log: bool) -> RunOutcome {
    let w = world.clone();
    let c = case.clone();
    let k = known.clone();
    let hs = world.hash_seed(case);
    let prop = world.property();
    let shared: Arc<Mutex<Obs>> = Arc::new(Mutex::new(Obs::new(prop, k, keep_log)));
    let shared2 = shared.clone();
    let stack = std::env::var("VERIF_STACK_MIB").ok().and_then(|s| s.parse().ok()).unwrap_or_else(|| world.case_stack_mib(case));
    let r = on_fresh_thread(hs, stack, move || {
        let mut obs = shared2.lock().unwrap_or_else(|e| e.into_inner());
        w.execute(&c, &mut obs)
    });
    let mut obs = match Arc::try_unwrap(shared) {
        Ok(m) => m.into_inner().unwrap_or_else(|e| e.into_inner()),
        Err(a) => a.lock().unwrap_or_else(|e| e.into_inner()).clone(),
    };
    let violation = match r {
        Ok(v) => v,
        Err(msg) => {
            let short: String = msg.chars().take(160).collect();
            let v = Violation::new("panic", format!("panic: {short}"), usize::MAX, "no panic while executing the history", msg);
            if obs.is_known(&v) {
                None
            } else {
                Some(v)
            }
        }
    };
    RunOutcome { obs, violation }
}

pub fn case_seed(verif_seed: u64, world: &str, run: u64) -> u64 {
    mix(&[verif_seed, tag(world), run])
}

pub struct BatchResult<C> {
    pub obs: Obs,
    pub runs_done: u64,
    /// fold of per-run digests in run order
    pub digest: u64,
    pub first_violation: Option<(u64, C, Violation)>,
    pub samples: Vec<Value>,
    pub wall_s: f64,
}

/// What one worker process reports back to the parent.
#[derive(Serialize, Deserialize, Default)]
pub struct WorkerReport {
    pub counters: BTreeMap<String, u64>,
    pub sets: BTreeMap<String, Vec<u64>>,
    pub known_hits: Vec<(String, String, String)>,
    pub digests: Vec<(u64, u64)>,
    pub failure: Option<(u64, Value, Violation)>,
    pub samples: Vec<(u64, Value)>,
}

/// Worker process: executes the runs `i` with `i % n == k`, in increasing order, each on a fresh
/// thread with owned hash keys, and stops at its first violation. Worker *processes* rather than
/// worker threads: creating and destroying a thread per run costs TLB shoot-downs on every core
/// the process is running on, which dominated the run time with 16 threads in one process.
pub fn worker_main<W: World>(world: &Arc<W>, verif_seed: u64, tier: Tier, runs: u64, k: u64, n: u64, out: &str, stop_file: &str, known: &Arc<Vec<KnownFinding>>) -> i32 {
    let mut local = Obs::new(world.property(), known.clone(), false);
    let mut rep = WorkerReport::default();
    // a replacement worker (after a watchdog kill) resumes behind the case that was examined in isolation
    let start_from: u64 = std::env::var("VERIF_WORKER_START").ok().and_then(|s| s.parse().ok()).unwrap_or(0);
    let isolated = world.crash_isolated();
    let progress = format!("{out}.progress");
    let partial = format!("{out}.partial");
    let mut i = k;
    while i < start_from {
        i += n;
    }
    let mut since_poll = 32; // look at the stop file before the first case
    while i < runs {
        if since_poll >= 32 {
            since_poll = 0;
            if let Ok(s) = std::fs::read_to_string(stop_file) {
                if let Ok(stop_at) = s.trim().parse::<u64>() {
                    if i > stop_at {
                        break;
                    }
                }
            }
        }
        since_poll += 1;
        let seed = case_seed(verif_seed, world.name(), i);
        let case = world.generate_indexed(i, seed, tier);
        if isolated {
            // report the case about to start, so that a death or a stall is attributed to it
            let _ = std::fs::write(&progress, format!("{i}"));
            if rep.digests.len() % 2000 == 0 {
                // what has been done so far survives a later death of this process
                rep.counters = local.counters.clone();
                rep.sets = local.sets.iter().map(|(k, v)| (k.clone(), v.iter().copied().collect())).collect();
                rep.known_hits = local.known_hits.iter().cloned().collect();
                let _ = std::fs::write(&partial, serde_json::to_string(&rep).unwrap_or_default());
            }
        }
        let out = run_case(world, &case, known, false);
        rep.digests.push((i, out.obs.digest));
        local.merge(&out.obs);
        local.count("runs");
        if i < 3 {
            if let Ok(v) = serde_json::to_value(&case) {
                rep.samples.push((i, v));
            }
        }
        if let Some(v) = out.violation {
            rep.failure = Some((i, serde_json::to_value(&case).unwrap_or(Value::Null), v));
            break;
        }
        i += n;
    }
    rep.counters = local.counters;
    rep.sets = local.sets.into_iter().map(|(k, v)| (k, v.into_iter().collect())).collect();
    rep.known_hits = local.known_hits.into_iter().collect();
    let s = serde_json::to_string(&rep).unwrap_or_default();
    if std::fs::write(out, s).is_err() {
        return 2;
    }
    0
}

static BATCH_NO: AtomicU64 = AtomicU64::new(0);

pub enum Isolated {
    Finished(Option<Violation>),
    Died(String),
    TimedOut,
}

/// Execute one case in a child process of its own (crash isolation), with a wall-clock limit.
/// The limit can only turn "seems stuck" into the verdict `hang` after the case has been
/// examined alone, so machine load cannot raise an alarm.
pub fn run_case_isolated<W: World>(world: &Arc<W>, case: &W::Case, limit_s: u64) -> Isolated {
    run_cases_isolated(world, std::slice::from_ref(case), limit_s)
}

/// Execute a sequence of cases one after the other in ONE fresh process (as a worker would) and
/// report on the last one. Used when a violation depends on state that earlier runs left behind in
/// the process (a process-wide static behind an API that is documented as thread-local, say).
pub fn run_cases_isolated<W: World>(world: &Arc<W>, cases: &[W::Case], limit_s: u64) -> Isolated {
    let exe = std::env::current_exe().unwrap_or_else(|_| harness_error("cannot find own executable"));
    let dir = format!("{}/work/iso-{}-{}", std::env::var("VERIF_DIR").unwrap_or_else(|_| "/verif".into()), std::process::id(), BATCH_NO.fetch_add(1, Ordering::SeqCst));
    let _ = std::fs::create_dir_all(&dir);
    let f = format!("{dir}/case.json");
    let o = format!("{dir}/out.json");
    if std::fs::write(&f, serde_json::to_string(cases).unwrap_or_default()).is_err() {
        harness_error("cannot write isolated case file");
    }
    let mut ch = std::process::Command::new(&exe)
        .arg("exec-case")
        .arg(world.name())
        .arg(&f)
        .arg(&o)
        .env("VERIF_IN_CHILD", "1")
        .stdout(std::process::Stdio::null())
        .stderr(std::process::Stdio::null())
        .spawn()
        .unwrap_or_else(|e| harness_error(&format!("cannot spawn isolated case: {e}")));
    let t0 = Instant::now();
    let res = loop {
        match ch.try_wait() {
            Ok(Some(st)) => {
                if st.success() {
                    let v: Option<Violation> = std::fs::read_to_string(&o).ok().and_then(|s| serde_json::from_str(&s).ok()).unwrap_or(None);
                    break Isolated::Finished(v);
                }
                break Isolated::Died(format!("{st}"));
            }
            Ok(None) => {
                if t0.elapsed().as_secs() >= limit_s {
                    let _ = ch.kill();
                    let _ = ch.wait();
                    break Isolated::TimedOut;
                }
                std::thread::sleep(std::time::Duration::from_millis(5));
            }
            Err(e) => harness_error(&format!("wait failed: {e}")),
        }
    };
    let _ = std::fs::remove_dir_all(&dir);
    res
}

struct Slot {
    k: usize,
    out: String,
    child: Option<std::process::Child>,
    last_idx: Option<u64>,
    since: Instant,
    restarts: u32,
}

/// Run `runs` cases on `workers` worker processes. The verdict and all merged statistics are
/// independent of the worker count: cases are a function of (seed, world, run index), every
/// run is isolated on its own thread, and the reported violation is the one with the lowest
/// run index.
pub fn run_batch<W: World>(world: &Arc<W>, verif_seed: u64, tier: Tier, runs: u64, workers: usize, known: &Arc<Vec<KnownFinding>>) -> BatchResult<W::Case> {
    let t0 = Instant::now();
    let workers = workers.max(1).min(runs.max(1) as usize);
    let isolated = world.crash_isolated();
    let stall_s: u64 = std::env::var("VERIF_STALL_S").ok().and_then(|s| s.parse().ok()).unwrap_or(30);
    let exe = std::env::current_exe().unwrap_or_else(|_| harness_error("cannot find own executable"));
    let dir = format!("{}/work/batch-{}-{}", std::env::var("VERIF_DIR").unwrap_or_else(|_| "/verif".into()), std::process::id(), BATCH_NO.fetch_add(1, Ordering::SeqCst));
    let _ = std::fs::remove_dir_all(&dir);
    if std::fs::create_dir_all(&dir).is_err() {
        harness_error(&format!("cannot create {dir}"));
    }
    let stop_file = format!("{dir}/stop");
    let spawn = |k: usize, out: &str, start: u64| -> std::process::Child {
        std::process::Command::new(&exe)
            .arg("worker")
            .arg(world.name())
            .arg(tier.name())
            .arg(verif_seed.to_string())
            .arg(runs.to_string())
            .arg(k.to_string())
            .arg(workers.to_string())
            .arg(out)
            .arg(&stop_file)
            .env("VERIF_WORKER_START", start.to_string())
            .stdout(std::process::Stdio::inherit())
            .stderr(if isolated { std::process::Stdio::null() } else { std::process::Stdio::inherit() })
            .spawn()
            .unwrap_or_else(|e| harness_error(&format!("cannot spawn worker: {e}")))
    };
    let mut slots: Vec<Slot> = vec![];
    for k in 0..workers {
        let out = format!("{dir}/w{k}.json");
        let ch = spawn(k, &out, 0);
        slots.push(Slot { k, out, child: Some(ch), last_idx: None, since: Instant::now(), restarts: 0 });
    }
    let progress = std::env::var("VERIF_PROGRESS").is_ok();
    let mut reports: Vec<WorkerReport> = vec![];
    let mut extra_fails: Vec<(u64, W::Case, Violation)> = vec![];
    let mut stop_at = u64::MAX;
    let mut watchdog_reexams = 0u64;
    let mut last_watch = Instant::now();
    let regen = |i: u64| world.generate_indexed(i, case_seed(verif_seed, world.name(), i), tier);
    let mut known_obs = Obs::new(world.property(), known.clone(), false);
    loop {
        let mut remaining = 0;
        let mut progressed = false;
        let watch_now = isolated && last_watch.elapsed().as_millis() >= 500;
        if watch_now {
            last_watch = Instant::now();
        }
        for s in slots.iter_mut() {
            let Some(c) = s.child.as_mut() else { continue };
            remaining += 1;
            match c.try_wait() {
                Ok(Some(st)) => {
                    s.child = None;
                    remaining -= 1;
                    progressed = true;
                    if st.success() {
                        let txt = std::fs::read_to_string(&s.out).unwrap_or_else(|e| harness_error(&format!("worker {} left no report: {e}", s.k)));
                        let rep: WorkerReport = serde_json::from_str(&txt).unwrap_or_else(|e| harness_error(&format!("worker {} report unreadable: {e}", s.k)));
                        if let Some((i, _, _)) = &rep.failure {
                            if *i < stop_at {
                                stop_at = *i;
                                let _ = std::fs::write(&stop_file, format!("{stop_at}"));
                            }
                        }
                        if progress {
                            eprintln!("  .. worker {} finished", s.k);
                        }
                        reports.push(rep);
                    } else if isolated {
                        // the worker died while executing the case it last reported
                        let idx = std::fs::read_to_string(format!("{}.progress", s.out)).ok().and_then(|t| t.trim().parse::<u64>().ok());
                        if let Ok(txt) = std::fs::read_to_string(format!("{}.partial", s.out)) {
                            if let Ok(rep) = serde_json::from_str::<WorkerReport>(&txt) {
                                reports.push(rep);
                            }
                        }
                        match idx {
                            Some(i) => {
                                let c = regen(i);
                                let v = Violation::new("process_death", format!("{}: worker process died: {st}", world.describe(&c)), 0, "a result or an error value", format!("the process executing the case ended with {st}"));
                                if known_obs.is_known(&v) {
                                    // listed finding: carry on behind it
                                    s.restarts += 1;
                                    s.out = format!("{dir}/w{}r{}.json", s.k, s.restarts);
                                    s.child = Some(spawn(s.k, &s.out, i + 1));
                                    s.last_idx = None;
                                    s.since = Instant::now();
                                    remaining += 1;
                                } else {
                                    extra_fails.push((i, c, v));
                                    if i < stop_at {
                                        stop_at = i;
                                        let _ = std::fs::write(&stop_file, format!("{stop_at}"));
                                    }
                                }
                            }
                            None => harness_error(&format!("worker {} of world {} died ({st}) before reporting a case", s.k, world.name())),
                        }
                    } else {
                        let _ = std::fs::remove_dir_all(&dir);
                        harness_error(&format!("worker {} of world {} exited with {st:?}", s.k, world.name()));
                    }
                }
                Ok(None) => {
                    if watch_now {
                        let idx = std::fs::read_to_string(format!("{}.progress", s.out)).ok().and_then(|t| t.trim().parse::<u64>().ok());
                        if idx != s.last_idx {
                            s.last_idx = idx;
                            s.since = Instant::now();
                        } else if let (Some(i), true) = (idx, s.since.elapsed().as_secs() >= stall_s) {
                            // seems stuck: stop the worker, examine the case alone, resume behind it
                            let _ = c.kill();
                            let _ = c.wait();
                            s.child = None;
                            if i > stop_at {
                                // a violation with a lower run index is already known: nothing behind it matters
                                continue;
                            }
                            watchdog_reexams += 1;
                            if let Ok(txt) = std::fs::read_to_string(format!("{}.partial", s.out)) {
                                if let Ok(rep) = serde_json::from_str::<WorkerReport>(&txt) {
                                    reports.push(rep);
                                }
                            }
                            let case = regen(i);
                            let desc = world.describe(&case);
                            let found = match run_case_isolated(world, &case, 4 * stall_s) {
                                Isolated::Finished(v) => v,
                                Isolated::Died(st) => Some(Violation::new("process_death", format!("{desc}: worker process died: {st}"), 0, "a result or an error value", format!("the process executing the case ended with {st}"))),
                                Isolated::TimedOut => Some(Violation::new("hang", format!("{desc}: no result after {} s alone in a fresh process", 4 * stall_s), 0, "termination", "still running")),
                            };
                            if let Some(v) = found {
                                if !known_obs.is_known(&v) {
                                    extra_fails.push((i, case, v));
                                }
                            }
                            if let Some((fi, _, _)) = extra_fails.last() {
                                if *fi == i && i < stop_at {
                                    stop_at = i;
                                    let _ = std::fs::write(&stop_file, format!("{stop_at}"));
                                }
                            }
                            s.restarts += 1;
                            s.out = format!("{dir}/w{}r{}.json", s.k, s.restarts);
                            s.child = Some(spawn(s.k, &s.out, i + 1));
                            s.last_idx = None;
                            s.since = Instant::now();
                        }
                    }
                }
                Err(e) => harness_error(&format!("wait failed: {e}")),
            }
        }
        // count again: a replacement worker may have been started in this pass
        let _ = remaining;
        if slots.iter().all(|s| s.child.is_none()) {
            break;
        }
        if !progressed {
            std::thread::sleep(std::time::Duration::from_millis(20));
        }
    }
    for s in slots.iter_mut() {
        if let Some(c) = s.child.as_mut() {
            let _ = c.kill();
            let _ = c.wait();
        }
    }
    let _ = std::fs::remove_dir_all(&dir);
    let mut obs = Obs::new(world.property(), known.clone(), false);
    let mut d: Vec<(u64, u64)> = vec![];
    let mut fails: Vec<(u64, W::Case, Violation)> = extra_fails;
    let mut samples: Vec<(u64, Value)> = vec![];
    for rep in reports {
        for (k, v) in rep.counters {
            *obs.counters.entry(k).or_default() += v;
        }
        for (k, v) in rep.sets {
            obs.sets.entry(k).or_default().extend(v);
        }
        obs.known_hits.extend(rep.known_hits);
        d.extend(rep.digests);
        if let Some((i, c, v)) = rep.failure {
            let case: W::Case = serde_json::from_value(c).unwrap_or_else(|e| harness_error(&format!("worker returned an unreadable case: {e}")));
            fails.push((i, case, v));
        }
        samples.extend(rep.samples);
    }
    if isolated {
        obs.add("watchdog_reexaminations", watchdog_reexams);
    }
    obs.merge(&known_obs);
    d.sort();
    d.dedup();
    fails.sort_by_key(|x| x.0);
    let first = fails.into_iter().next();
    let limit = first.as_ref().map(|x| x.0).unwrap_or(u64::MAX);
    let mut digest = 0u64;
    let mut runs_done = 0;
    for (i, x) in &d {
        if *i <= limit {
            digest = mix(&[digest, *i, *x]);
            runs_done += 1;
        }
    }
    samples.sort_by_key(|x| x.0);
    samples.dedup_by_key(|x| x.0);
    BatchResult { obs, runs_done, digest, first_violation: first, samples: samples.into_iter().map(|x| x.1).collect(), wall_s: t0.elapsed().as_secs_f64() }
}

/// Greedy delta debugging driven by the world's own candidate generator: accept a candidate
/// iff the same violation kind reproduces.
pub fn minimise<W: World>(world: &Arc<W>, case: &W::Case, v: &Violation, known: &Arc<Vec<KnownFinding>>) -> (W::Case, Violation, usize) {
    minimise_opt(world, case, v, known, false)
}

/// `force_isolated`: execute every candidate in a fresh process (needed when the code under test
/// keeps process-wide state, so that candidates executed in one process would influence each other)
pub fn minimise_opt<W: World>(world: &Arc<W>, case: &W::Case, v: &Violation, known: &Arc<Vec<KnownFinding>>, force_isolated: bool) -> (W::Case, Violation, usize) {
    let mut cur = case.clone();
    let mut cur_v = v.clone();
    let mut tried = 0usize;
    let budget = 4000usize;
    'outer: loop {
        let cands = world.shrink(&cur);
        for c in cands {
            if tried >= budget {
                break 'outer;
            }
            tried += 1;
            let needs_isolation = force_isolated || world.crash_isolated() && (cur_v.kind == "process_death" || cur_v.kind == "hang");
            let violation = if needs_isolation {
                // every candidate costs a process (and, for hangs, a time-out): keep the search short
                if tried > (if cur_v.kind == "hang" { 24 } else { 250 }) {
                    break 'outer;
                }
                match run_case_isolated(world, &c, if cur_v.kind == "hang" { 12 } else { 20 }) {
                    Isolated::Finished(v) => v,
                    Isolated::Died(st) => Some(Violation::new("process_death", format!("worker process died: {st}"), 0, "a result or an error value", format!("the process executing the case ended with {st}"))),
                    Isolated::TimedOut => Some(Violation::new("hang", "no result within the limit, alone in a fresh process", 0, "termination", "still running")),
                }
            } else {
                run_case(world, &c, known, false).violation
            };
            if let Some(v2) = violation {
                if v2.kind == cur_v.kind {
                    cur = c;
                    cur_v = v2;
                    continue 'outer;
                }
            }
        }
        break;
    }
    (cur, cur_v, tried)
}

#[derive(Serialize, Deserialize)]
pub struct ReplayFile {
    pub property: String,
    pub world: String,
    pub verif_seed: u64,
    pub run: u64,
    /// cases that the same process executed before `case` and that the violation depends on
    /// (empty unless state leaked from one run into the next)
    #[serde(default)]
    pub preceding: Vec<Value>,
    pub case: Value,
    pub violation: Violation,
    pub minimised_from: Value,
    pub harness: Value,
}

pub fn write_replay<W: World>(verif_dir: &str, world: &Arc<W>, verif_seed: u64, run: u64, case: &W::Case, v: &Violation, original: &W::Case, tried: usize) -> String {
    write_replay_with(verif_dir, world, verif_seed, run, &[], case, v, original, tried)
}

#[allow(clippy::too_many_arguments)]
pub fn write_replay_with<W: World>(verif_dir: &str, world: &Arc<W>, verif_seed: u64, run: u64, preceding: &[W::Case], case: &W::Case, v: &Violation, original: &W::Case, tried: usize) -> String {
    // VERIF_OUT_DIR redirects replays and evidence (used for sensitivity experiments on scratch copies)
    let dir = format!("{}/replays", std::env::var("VERIF_OUT_DIR").unwrap_or_else(|_| verif_dir.to_string()));
    let _ = std::fs::create_dir_all(&dir);
    let path = format!("{dir}/{}-{}-{}.json", world.property(), verif_seed, run);
    let rf = ReplayFile {
        property: world.property().to_string(),
        world: world.name().to_string(),
        verif_seed,
        run,
        preceding: preceding.iter().map(|c| serde_json::to_value(c).unwrap_or(Value::Null)).collect(),
        case: serde_json::to_value(case).unwrap_or(Value::Null),
        violation: v.clone(),
        minimised_from: json!({"case_bytes": serde_json::to_string(original).map(|s| s.len()).unwrap_or(0), "minimised_bytes": serde_json::to_string(case).map(|s| s.len()).unwrap_or(0), "candidates_tried": tried}),
        harness: json!({"repo": std::env::var("VERIF_REPO").unwrap_or_else(|_| "/repo".into())}),
    };
    let s = serde_json::to_string_pretty(&rf).unwrap_or_default();
    if let Err(e) = std::fs::write(&path, s) {
        harness_error(&format!("cannot write replay file {path}: {e}"));
    }
    path
}

/// Re-execute a replay file. Returns Some(violation) if the same kind reproduces.
pub fn replay<W: World>(world: &Arc<W>, rf: &ReplayFile, known: &Arc<Vec<KnownFinding>>) -> Option<Violation> {
    let case: W::Case = match serde_json::from_value(rf.case.clone()) {
        Ok(c) => c,
        Err(e) => harness_error(&format!("replay file does not hold a {} case: {e}", world.name())),
    };
    for pc in &rf.preceding {
        if let Ok(c) = serde_json::from_value::<W::Case>(pc.clone()) {
            let _ = run_case(world, &c, known, false);
        }
    }
    if world.crash_isolated() && std::env::var("VERIF_IN_CHILD").is_err() {
        return match run_case_isolated(world, &case, 150) {
            Isolated::Finished(v) => v,
            Isolated::Died(st) => Some(Violation::new("process_death", format!("worker process died: {st}"), 0, "a result or an error value", format!("the process executing the case ended with {st}"))),
            Isolated::TimedOut => Some(Violation::new("hang", "no result within 150 s, alone in a fresh process", 0, "termination", "still running")),
        };
    }
    let out = run_case(world, &case, known, true);
    if std::env::var("VERIF_SHOW_LOG").is_ok() {
        for l in &out.obs.log {
            println!("  | {l}");
        }
    }
    match out.violation {
        Some(v) if v.kind == rf.violation.kind => Some(v),
        Some(v) => {
            println!("replay produced a different violation kind: {} (file says {})", v.kind, rf.violation.kind);
            Some(v)
        }
        None => None,
    }
}

pub struct EvidenceInput<'a> {
    pub verif_dir: &'a str,
    pub tier: Tier,
    pub seed: u64,
    pub wall_s: f64,
    pub violations: u64,
    pub selftest: Value,
    pub extra: Value,
}

pub fn write_evidence<W: World>(world: &Arc<W>, res: &BatchResult<W::Case>, inp: EvidenceInput<'_>) {
    let obs = &res.obs;
    let evals = obs.counters.get(world.evaluations_counter()).copied().unwrap_or(0);
    let nontrivial = obs.sets.get(world.nontrivial_set()).map(|s| s.len()).unwrap_or(0);
    let mut faults = BTreeMap::new();
    let mut reach = BTreeMap::new();
    let mut other = BTreeMap::new();
    for (k, v) in &obs.counters {
        if let Some(f) = k.strip_prefix("fault.") {
            faults.insert(f.to_string(), *v);
        } else if let Some(f) = k.strip_prefix("reach.") {
            reach.insert(f.to_string(), *v);
        } else {
            other.insert(k.clone(), *v);
        }
    }
    let sets: BTreeMap<String, usize> = obs.sets.iter().map(|(k, v)| (k.clone(), v.len())).collect();
    let runs = res.runs_done.max(1) as f64;
    let steps = obs.counters.get("logical_steps").copied().unwrap_or(0);
    let known: Vec<Value> = obs.known_hits.iter().map(|(k, m, w)| json!({"kind": k, "match": m, "what": w})).collect();
    let ev = json!({
        "property_id": world.property(),
        "tier": inp.tier.name(),
        "seed": inp.seed,
        "level": world.level(),
        "coverage": {
            "evaluations": evals,
            "distinct_nontrivial": nontrivial,
            "rule": world.rule(),
            "samples": res.samples,
            "runs": res.runs_done,
            "runs_per_hour": (runs / inp.wall_s.max(1e-9) * 3600.0) as u64,
            "seeds_per_hour": (runs / inp.wall_s.max(1e-9) * 3600.0) as u64,
            "simulated_time": {"unit": "logical steps (operations applied, loader rounds, thread switches, bytes delivered); the anchored code has no clock", "steps": steps},
            "faults_fired": faults,
            "reach_probes": reach,
            "counters": other,
            "distinct": sets,
            "batch_digest": format!("{:016x}", res.digest),
            "determinism_selftest": inp.selftest,
            "real_components": world.real_components(),
            "simulated_components": world.simulated_components(),
            "known_findings_hit": known,
            "extra": inp.extra,
        },
        "assumptions": world.assumptions(),
        "wall_s": inp.wall_s,
        "violations": inp.violations,
    });
    let dir = format!("{}/evidence", std::env::var("VERIF_OUT_DIR").unwrap_or_else(|_| inp.verif_dir.to_string()));
    let _ = std::fs::create_dir_all(&dir);
    let path = format!("{dir}/{}.json", world.property());
    let s = serde_json::to_string_pretty(&ev).unwrap_or_default();
    if let Err(e) = std::fs::write(&path, s) {
        harness_error(&format!("cannot write evidence {path}: {e}"));
    }
}

/// Small helper for generators.
pub fn sub_rng(seed: u64, name: &str) -> Rng {
    Rng::sub(seed, name)
}

/// Generic list shrinking candidates: drop halves, quarters, then single elements.
pub fn list_shrinks<T: Clone>(xs: &[T]) -> Vec<Vec<T>> {
    let n = xs.len();
    let mut out = vec![];
    if n == 0 {
        return out;
    }
    let mut chunk = n / 2;
    while chunk >= 1 {
        let mut start = 0;
        while start < n {
            let end = (start + chunk).min(n);
            let mut v = Vec::with_capacity(n - (end - start));
            v.extend_from_slice(&xs[..start]);
            v.extend_from_slice(&xs[end..]);
            out.push(v);
            start += chunk;
        }
        if chunk == 1 {
            break;
        }
        chunk /= 2;
    }
    out
}
