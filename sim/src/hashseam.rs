//! S1: the simulator owns hash-map iteration order.
//!
//! std's `RandomState::new()` draws its two SipHash keys once per thread through libc's
//! `getrandom` (and bumps them per map). The harness binary defines `getrandom` itself, which
//! the static link prefers over libc's, and fills the buffer from a per-thread seed the run sets
//! as its first action. Every run executes on a freshly spawned thread, so every `HashMap` /
//! `HashSet` iteration order inside cedar is a pure function of the run's seed.

use std::cell::Cell;
use std::sync::atomic::{AtomicU64, Ordering};

thread_local! {
    static HASH_SEED: Cell<u64> = const { Cell::new(0x5EED_0000_0000_0001) };
    static DRAWS: Cell<u64> = const { Cell::new(0) };
}

/// number of times the shim was called (all threads), for the self-test
pub static CALLS: AtomicU64 = AtomicU64::new(0);

pub fn set_thread_hash_seed(seed: u64) {
    HASH_SEED.with(|c| c.set(seed));
    DRAWS.with(|c| c.set(0));
}

/// # Safety
/// Same contract as libc's getrandom: `buf` points to `len` writable bytes.
#[no_mangle]
pub unsafe extern "C" fn getrandom(buf: *mut u8, len: usize, _flags: u32) -> isize {
    CALLS.fetch_add(1, Ordering::Relaxed);
    let seed = HASH_SEED.try_with(|c| c.get()).unwrap_or(0x5EED_0000_0000_0002);
    let draw = DRAWS
        .try_with(|c| {
            let d = c.get();
            c.set(d + 1);
            d
        })
        .unwrap_or(0);
    let mut state = crate::rng::mix(&[seed, draw, 0x6861_7368]);
    let mut i = 0usize;
    while i < len {
        let w = crate::rng::splitmix(&mut state).to_le_bytes();
        let mut k = 0;
        while k < 8 && i < len {
            *buf.add(i) = w[k];
            i += 1;
            k += 1;
        }
    }
    len as isize
}

/// Warm, reusable thread stacks. In this VM thread creation through std (mmap + munmap +
/// madvise of the stack, fresh page faults on every run) is serialised in the kernel and made
/// 16 workers barely faster than one. Threads are therefore created with `pthread_create` on
/// stacks the harness owns and re-uses, so a fresh thread costs one `clone` and no page faults.
/// The thread is still a genuinely new OS thread: fresh TLS, hence fresh `RandomState` keys.
struct StackPool {
    free: Vec<(usize, usize)>, // (base address, size)
}
static POOL: std::sync::Mutex<StackPool> = std::sync::Mutex::new(StackPool { free: Vec::new() });

fn take_stack(size: usize) -> (usize, usize) {
    {
        let mut p = POOL.lock().unwrap_or_else(|e| e.into_inner());
        if let Some(i) = p.free.iter().position(|(_, s)| *s == size) {
            return p.free.swap_remove(i);
        }
    }
    // SAFETY: plain anonymous mapping; lowest page becomes a guard page
    unsafe {
        let base = libc::mmap(std::ptr::null_mut(), size, libc::PROT_READ | libc::PROT_WRITE, libc::MAP_PRIVATE | libc::MAP_ANONYMOUS | libc::MAP_NORESERVE, -1, 0);
        if base == libc::MAP_FAILED {
            return (0, 0);
        }
        libc::mprotect(base, 4096, libc::PROT_NONE);
        (base as usize, size)
    }
}

fn give_stack(st: (usize, usize)) {
    if st.0 != 0 {
        POOL.lock().unwrap_or_else(|e| e.into_inner()).free.push(st);
    }
}

struct Job {
    seed: u64,
    f: Option<Box<dyn FnOnce() + Send>>,
}

extern "C" fn trampoline(arg: *mut libc::c_void) -> *mut libc::c_void {
    // SAFETY: arg is the Box<Job> leaked by on_fresh_thread
    let mut job: Box<Job> = unsafe { Box::from_raw(arg as *mut Job) };
    set_thread_hash_seed(job.seed);
    if let Some(f) = job.f.take() {
        // the closure catches its own panics
        f();
    }
    std::ptr::null_mut()
}

/// Handle of a fresh thread started by [`spawn_fresh`].
pub struct FreshHandle<T> {
    tid: libc::pthread_t,
    stack: (usize, usize),
    slot: std::sync::Arc<std::sync::Mutex<Option<Result<T, String>>>>,
}

impl<T> FreshHandle<T> {
    pub fn join(self) -> Result<T, String> {
        // SAFETY: tid was returned by a successful pthread_create and is joined exactly once
        unsafe {
            libc::pthread_join(self.tid, std::ptr::null_mut());
        }
        give_stack(self.stack);
        let r = self.slot.lock().unwrap_or_else(|e| e.into_inner()).take();
        r.unwrap_or_else(|| Err("thread ended without a result".to_string()))
    }
}

/// Start `f` on a fresh OS thread whose hash keys derive from `seed`.
pub fn spawn_fresh<T: Send + 'static>(seed: u64, stack_mib: usize, f: impl FnOnce() -> T + Send + 'static) -> Result<FreshHandle<T>, String> {
    let slot: std::sync::Arc<std::sync::Mutex<Option<Result<T, String>>>> = std::sync::Arc::new(std::sync::Mutex::new(None));
    let slot2 = slot.clone();
    let body: Box<dyn FnOnce() + Send> = Box::new(move || {
        let r = std::panic::catch_unwind(std::panic::AssertUnwindSafe(f)).map_err(|p| panic_message(&p));
        *slot2.lock().unwrap_or_else(|e| e.into_inner()) = Some(r);
    });
    let size = stack_mib << 20;
    let st = take_stack(size);
    if st.0 == 0 {
        return Err("cannot allocate a thread stack".to_string());
    }
    let job = Box::into_raw(Box::new(Job { seed, f: Some(body) }));
    // SAFETY: standard pthread usage; the stack stays alive until after pthread_join
    let (rc, tid) = unsafe {
        let mut attr: libc::pthread_attr_t = std::mem::zeroed();
        libc::pthread_attr_init(&mut attr);
        // usable area starts above the guard page
        libc::pthread_attr_setstack(&mut attr, (st.0 + 4096) as *mut libc::c_void, st.1 - 4096);
        let mut tid: libc::pthread_t = std::mem::zeroed();
        let rc = libc::pthread_create(&mut tid, &attr, trampoline, job as *mut libc::c_void);
        libc::pthread_attr_destroy(&mut attr);
        if rc != 0 {
            drop(Box::from_raw(job));
        }
        (rc, tid)
    };
    if rc != 0 {
        give_stack(st);
        return Err(format!("pthread_create failed: {rc}"));
    }
    Ok(FreshHandle { tid, stack: st, slot })
}

/// Run `f` on a fresh OS thread whose hash keys derive from `seed`. Panics in `f` are returned
/// as Err(message).
pub fn on_fresh_thread<T: Send + 'static>(seed: u64, stack_mib: usize, f: impl FnOnce() -> T + Send + 'static) -> Result<T, String> {
    spawn_fresh(seed, stack_mib, f)?.join()
}

/// S2: a parked caller thread. It owns its hash keys and its thread-local state (cedar's FFI
/// caches); it executes exactly the jobs the simulator hands it, one at a time, and the
/// simulator waits for each result, so exactly one thread is ever runnable.
pub struct Caller<R: Send + 'static> {
    tx: Option<std::sync::mpsc::Sender<Box<dyn FnOnce() -> R + Send>>>,
    rx: std::sync::mpsc::Receiver<Result<R, String>>,
    handle: Option<FreshHandle<()>>,
}

impl<R: Send + 'static> Caller<R> {
    pub fn spawn(seed: u64, stack_mib: usize) -> Result<Self, String> {
        let (tx, jrx) = std::sync::mpsc::channel::<Box<dyn FnOnce() -> R + Send>>();
        let (rtx, rx) = std::sync::mpsc::channel::<Result<R, String>>();
        let handle = spawn_fresh(seed, stack_mib, move || {
            while let Ok(job) = jrx.recv() {
                let r = std::panic::catch_unwind(std::panic::AssertUnwindSafe(job)).map_err(|p| panic_message(&p));
                if rtx.send(r).is_err() {
                    break;
                }
            }
        })?;
        Ok(Caller { tx: Some(tx), rx, handle: Some(handle) })
    }
    /// run one job on the parked thread and wait for it
    pub fn call(&self, job: impl FnOnce() -> R + Send + 'static) -> Result<R, String> {
        match &self.tx {
            Some(tx) => {
                if tx.send(Box::new(job)).is_err() {
                    return Err("caller thread is gone".into());
                }
                self.rx.recv().unwrap_or_else(|_| Err("caller thread died".into()))
            }
            None => Err("caller thread already stopped".into()),
        }
    }
}

impl<R: Send + 'static> Drop for Caller<R> {
    fn drop(&mut self) {
        self.tx = None; // closes the job channel, the thread leaves its loop
        if let Some(h) = self.handle.take() {
            let _ = h.join();
        }
    }
}

pub fn panic_message(p: &Box<dyn std::any::Any + Send>) -> String {
    if let Some(s) = p.downcast_ref::<&str>() {
        (*s).to_string()
    } else if let Some(s) = p.downcast_ref::<String>() {
        s.clone()
    } else {
        "<non-string panic payload>".to_string()
    }
}

/// Observable fingerprint of the current thread's hash order (used by the self-test).
pub fn order_probe() -> Vec<u32> {
    let s: std::collections::HashSet<u32> = (0..32).collect();
    s.into_iter().collect()
}
