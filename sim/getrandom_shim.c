/* LD_PRELOAD shim for the cedar CLI subprocess: std's RandomState draws its SipHash keys through
 * getrandom(); deriving the bytes from CEDAR_SIM_HASH_SEED makes hash-map iteration order inside
 * the CLI reproducible and a searched dimension. Performance/determinism only. */
#define _GNU_SOURCE
#include <stdlib.h>
#include <sys/types.h>
ssize_t getrandom(void *buf, size_t len, unsigned int flags) {
  (void)flags;
  const char *s = getenv("CEDAR_SIM_HASH_SEED");
  unsigned long long x = s ? strtoull(s, 0, 10) : 1ULL;
  if (x == 0) x = 0x9E3779B97F4A7C15ULL;
  unsigned char *b = (unsigned char *)buf;
  for (size_t i = 0; i < len; i++) {
    x ^= x << 13; x ^= x >> 7; x ^= x << 17;
    b[i] = (unsigned char)(x >> 24);
  }
  return (ssize_t)len;
}
