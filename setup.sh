#!/bin/sh
# Run once after a fresh restore, offline: build the simulator against /repo and prove determinism.
cd "$(dirname "$0")" || exit 2
./check build || exit 2
./check selftest quick || exit 2
exit 0
