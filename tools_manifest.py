#!/usr/bin/env python3
"""Regenerates /verif/MANIFEST.json from the table below (keeps it valid and in one place)."""
import json, sys
NA = {
"C02":"Expression evaluation is a pure function (expr, request, store) -> value/error with no schedule, clock, fault or history; deciding it needs an independent evaluator over generated programs (differential testing), not simulation.",
"C03":"Validator soundness quantifies over programs x conformant inputs of pure functions; nothing for a simulator to schedule or break.",
"C05":"parse -> print -> parse is a pure function of the text; no history, fault or interleaving.",
"C06":"JSON/PST/protobuf conversions are pure structural recursions over immutable values; no history or fault.",
"C07":"Extension constructors/operations are pure functions of strings and values.",
"C09":"Schema translation is a pure function of the schema text.",
"C10":"Entity/context JSON round trip is a pure function of the data and schema; the thin impl Read/Write wrappers are exercised for panics/hangs under C20 only.",
"C11":"Conformance checking is a pure predicate on (schema, datum); its 'single-fault mutations' are input mutations, not environment faults.",
"C12":"The formatter is a pure function of (text, config).",
"C13":"Partial-evaluation soundness relates two pure calls; no schedule or fault between them.",
"C14":"TPE and permission queries are pure functions of validated policies and partial inputs; response views are pure accessors.",
"C16":"Level-slice sufficiency compares two pure authorizations; the slice is computed in-process, not fetched through a seam.",
"C17":"The manifest loader trait is crate-private with only the in-memory slicer; from outside slice_entities is a pure function.",
"C18":"Symbolic compilation on literal environments is pure term construction; the solver I/O is explicitly outside the property."}
PENDING = {k:"claimed in DESIGN.md section 4 but its world is not implemented yet in this commit (under construction)" for k in []}
CHECKS = {
"C20": dict(world="storagefaults", cat="fault_enumeration", ref="DESIGN.md 4.6",
  text="Storage-fault injection over a corpus of durable documents (the repo's sample policies, schemas, entities, contexts, JSON policies; generated documents with every operator, escapes, boundary literals and nesting up to 48; cedar's own protobuf encodings; FFI envelopes): the quick tier runs every document unfaulted through each of its entry points and enumerates (thinned for envelopes and encodings) every truncation point and every single-bit flip in the first 64 bytes of every document of at most 2 KiB, every structure-aware JSON fault at every node, a stray escape / quote / lost byte at every position of the generated documents and every one- and two-token document, then samples multi-fault plans (torn write, bit flip, token overwrite/insert, zero/duplicate/drop range, splice, lost write, invalid UTF-8, wrong-format delivery) plus reader/writer faults (short reads/writes, EINTR, hard error or zero-length write at byte k). Each faulted document is driven through parse -> print / convert (JSON, PST, protobuf) / format / validate (strict, permissive, levels) / authorize / link / partial evaluation / type-aware partial evaluation / batched evaluation / permission queries, against the generic and its own bundle's schema, entities and requests; every error, warning and diagnostic obtained on the way is rendered every way (message, help, code, labels, graphical / narratable / JSON report), in crash-isolated worker processes; a few designated documents run alone under a time limit. Oracle: no panic (catch_unwind per stage), no death by signal, termination (watchdog + re-examination alone).",
  note="Trusted: catch_unwind and process exit status as panic/abort detectors; the conservative nesting measure that skips documents deeper than 48. Sampling beyond the enumerated single faults. Reader-error propagation is a statistic, not an oracle.",
  tech="deterministic simulation: fault enumeration/injection on stored bytes and on Read/Write seams, crash-isolated workers, watchdog"),
"C19": dict(world="frontends", cat="exploration", ref="DESIGN.md 4.5",
  text="Seeded search over histories of front-end calls issued from 1-3 parked caller threads (the simulator decides which thread makes each call): stateless FFI authorization in every input shape, preparse/re-registration histories with invalid documents, stateful authorization against a per-thread model of the registration cache, FFI validate / format / convert / check-parse, and the real cedar CLI run as a subprocess over a simulated disk with file faults (absent, torn, bit-flipped, swapped, emptied, garbage): authorize (flags or --request-json, text or JSON policies, links file), `link` followed by authorize over the links file it left behind, validate (--deny-warnings, --level), translate-policy, translate-schema, check-parse, format --check. Every answer is compared with the Rust API fed the same documents (for stateful calls: with the stateless FFI call on the modelled registered documents).",
  note="Trusted: the Rust API as reference implementation (the property is a refinement between two real implementations), the harness's independent assembly of policy sets / schemas / requests the documented way, the per-thread cache model. 'Currently registered' is read as per calling thread (documented thread-local). Error messages are not compared, only success/failure, decisions, id sets and converted values.",
  tech="deterministic simulation: parked caller threads with a seeded scheduler over thread-local caches, registration histories with failing re-registrations, CLI subprocess over a fault-injected file store; API as differential reference"),
"C08": dict(world="policyset", cat="exploration", ref="DESIGN.md 4.3",
  text="Seeded search over policy-set edit histories (add, add_template, link with exact/missing/extra/wrong-target bindings, unlink, remove_static, remove_template, merge with and without renaming where `other` comes from its own sub-history) over a small colliding id pool, about half of the operations designed to fail; policy objects taken out of the set are handed back to `add`; after every step the set is compared with a name/role model at set level (after a failed step also with its own clone taken before, by == and by iteration order), authorization over the edited set with the model's table, and every new link with the static policy obtained by textual substitution on all probe requests (plus effect and annotations).",
  note="Trusted: the name/role model and conflict rule written from the documented contracts, the atom evaluator shared with C01, the getrandom interposition. merge may rename more than necessary.",
  tech="deterministic simulation: seeded edit/merge histories with designed-to-fail operations vs name/role model + substitution oracle"),
"C01": dict(world="authz", cat="exploration", ref="DESIGN.md 4.1",
  text="Seeded search over histories of policy-set edits, store edits and authorization calls against one long-lived Authorizer; every response (decision, reason set, erroring ids) is compared with an exact reference model (three-valued atom evaluator + decision table); purity is decided by re-issuing requests on unchanged state and by rebuilding the same logical state on fresh threads under other hash orders, permuted insertion orders and respelled / auto-numbered policy ids.",
  note="Trusted: the harness's ~150-line atom evaluator and decision table, the getrandom interposition. The atom family is workload (scope forms, when/unless, type errors, overflow, missing attributes/entities, `unknown(..)` residuals), not the whole expression language. Errors compared as id sets; messages and vector order not compared.",
  tech="deterministic simulation: seeded call/edit histories + hash-order, insertion-order and id-spelling replicas vs exact reference model"),
"C15": dict(world="batched", cat="exploration", ref="DESIGN.md 4.4",
  text="Seeded search over (validated policy set incl. templates with several links and an action that applies to two resource types, conformant store with absent entities, request, delivery-fault plan of a simulated entity-store service behind the EntityLoader seam) with every iteration budget 0..=n+1 enumerated per scenario; each batched call is compared with ordinary authorization over the same store; monotonicity in the budget and bounded liveness (budget n+1 decides) are checked over the recorded per-budget history.",
  note="Trusted: the real strict validator / schema-based entity and request validation as precondition filters, Authorizer::is_authorized as reference, the harness's counting of distinct entity ids. Assumes re-delivery of already delivered entities is within the loader contract.",
  tech="deterministic simulation: simulated loader service with seeded delivery faults, budgets enumerated, differential oracle + history checks (monotone, bounded liveness)"),
"C04": dict(world="hierarchy", cat="exploration", ref="DESIGN.md 4.2",
  text="Seeded search over store histories (from_entities/add/upsert/remove/protobuf decode/enforce) on a pool of <=10 ids, each history executed under 1-4 owned hash orders, compared step by step with a parent-reachability model (ancestors(), is_ancestor_of, `principal in` through the authorizer, cycle rejection, enforce verdicts). Sampling, not proof: a clean batch is evidence that no history of this shape breaks the property.",
  note="Trusted: the harness's reachability model (~40 lines), the getrandom interposition that owns std RandomState keys, serde/serde_json. Assumes re-adding an existing uid may be an error or a no-op, and that remove of an absent id is a no-op (documented).",
  tech="deterministic simulation: seeded operation histories + owned hash-order schedules vs reference model, ddmin-minimised replay files"),
}
def main():
    checks=[]
    for pid,c in sorted(CHECKS.items()):
        checks.append({"property_id":pid,"quick_cmd":f"./check {pid} quick","thorough_cmd":f"./check {pid} thorough","evidence_file":f"/verif/evidence/{pid}.json","replay_cmd_template":f"./check replay {pid} --replay {{path}}","engine":"cedar-sim","level_claimed":{"category":c["cat"],"text":c["text"],"design_ref":c["ref"]},"level_note":c["note"],"technique":c["tech"]})
    m={"version":1,"setup_cmd":"./setup.sh",
     "hooks":{"guard":"cedar_verif_sim","enable":"no source hooks: every seam is reached from outside /repo (getrandom symbol interposition in the harness binary, public traits EntityLoader / impl Read / impl Write, the cedar CLI as a subprocess); checks build /repo's working tree as path dependencies of /verif/sim","baseline_off_cmd":"cd /repo && cargo test --workspace --no-fail-fast --offline","source_commits":[],"add_only":True},
     "engines":[{"name":"cedar-sim","path":"/verif/sim","serves_properties":sorted(CHECKS),"kind_free_text":"deterministic simulator: seeded op-list generator, fresh-thread runs with owned hash seeds, reference models, ddmin minimiser, replay files, worker processes"}],
     "checks":checks,
     "notes":"see DESIGN.md; fix: commits in /repo are listed in known-findings.json",
     "not_applicable":[{"property_id":k,"reason":v} for k,v in sorted({**NA, **PENDING}.items()) if k not in CHECKS]}
    # properties neither claimed nor listed: say why (not built yet)
    json.dump(m,open('/verif/MANIFEST.json','w'),indent=1)
main()
