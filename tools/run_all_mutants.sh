#!/bin/sh
# Runs every mutant (seeded/<ID>/<m>/patch.diff from sub-agents, mutants/<ID>/<name>.diff written by me)
# through the quick tier of its property's check on a scratch copy; writes mutants/RESULTS.tsv.
OUT=/verif/mutants/RESULTS.tsv
printf 'property\tmutant\torigin\texit\tfirst_failing_run\tkind\twall_s\n' > "$OUT"
run() { # id name origin patch
  s=$(date +%s)
  /verif/tools/mutant.sh "$4" "$1" quick > /verif/work/mut/one.log 2>&1
  rc=$?
  e=$(date +%s)
  run=$(grep -o "violation in run [0-9]*" /verif/work/mut/last.log | head -1 | awk '{print $4}')
  kind=$(grep -o "violation in run [0-9]*: kind=[a-z_]*" /verif/work/mut/last.log | head -1 | sed 's/.*kind=//')
  printf '%s\t%s\t%s\t%s\t%s\t%s\t%s\n' "$1" "$2" "$3" "$rc" "${run:--}" "${kind:--}" "$((e-s))" >> "$OUT"
}
for d in /verif/seeded/*/*/; do id=$(basename "$(dirname "$d")"); m=$(basename "$d"); if [ -f "$d/OBSOLETE" ]; then printf '%s\t%s\tagent (obsolete, see its OBSOLETE file)\t-\t-\t-\t0\n' "$id" "$m" >> "$OUT"; continue; fi; run "$id" "$m" agent "$d/patch.diff"; done
for f in /verif/mutants/*/*.diff; do id=$(basename "$(dirname "$f")"); m=$(basename "$f" .diff); run "$id" "$m" own "$f"; done
# and the unchanged tree must stay silent on the scratch copy too
for id in C01 C04 C08 C15 C19 C20; do run "$id" "(no change)" control none; done
cat "$OUT"
