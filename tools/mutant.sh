#!/bin/sh
# tools/mutant.sh <patch.diff> <ID> [tier]   -- sensitivity experiment on a scratch copy of /repo
# Applies the patch to /tmp/cedar-scratch (rsync'ed from /repo without target/), points the check at it
# with VERIF_REPO, and redirects replays/evidence to /verif/work/mut so that /verif/evidence stays clean.
set -u
PATCH="$1"; ID="$2"; TIER="${3:-quick}"
SCR="${SCR:-/tmp/cedar-scratch}"
OUTD="${MUT_OUT:-/verif/work/mut}"
case "$PATCH" in none|/*) ;; *) PATCH="$(pwd)/$PATCH" ;; esac
mkdir -p "$SCR" "$OUTD"
rsync -a --delete --exclude target --exclude .git /repo/ "$SCR"/ || exit 2
if [ "$PATCH" != "none" ]; then ( cd "$SCR" && patch -p1 -s < "$PATCH" ) || { echo "patch failed"; exit 2; }; fi
VERIF_REPO="$SCR" VERIF_OUT_DIR="$OUTD" /verif/check "$ID" "$TIER" > "$OUTD/last.log" 2>&1
rc=$?
grep -E "^(VIOLATION|HARNESS-ERROR|KNOWN-FINDING|violation in run|  expected|  observed|  minimised|done:)" "$OUTD/last.log" | cut -c1-400
echo "exit=$rc"
exit $rc
