#!/bin/sh
# tools/confirm_seeded.sh <worktree> <mutant dir name>   -- re-confirm an agent's mutant myself:
#  demo passes on the clean tree, fails with the patch, and the touched crates' existing lib tests pass with the patch.
WT="$1"; M="$2"; D="$WT/MUTANTS/$M"
FEAT="${FEATURES:+--features \"$FEATURES\"}"
FEAT=""; [ -n "${FEATURES:-}" ] && FEAT="--features=$FEATURES"
export CARGO_NET_OFFLINE=true CARGO_TARGET_DIR="$WT/target"
cd "$WT" || exit 2
git checkout -q -- . ; rm -f cedar-policy/tests/mutant_demo.rs
if [ -f "$D/demo.sh" ]; then
  # CLI mutant: the demo is a shell script
  bash "$D/demo.sh" > "$D/confirm_clean.log" 2>&1; c=$?
  git apply "$D/patch.diff" || { echo "$M: patch does not apply"; exit 2; }
  bash "$D/demo.sh" > "$D/confirm_mutant.log" 2>&1; m=$?
  cargo test --offline -p cedar-policy-cli > "$D/confirm_cli_tests.log" 2>&1; t3=$?
  git checkout -q -- .
  echo "$M: demo_on_clean_exit=$c demo_with_mutant_exit=$m cli_tests_exit=$t3 (link_file_cant_read fails on the clean tree too when run as root)"
  exit 0
fi
cp "$D/demo.rs" cedar-policy/tests/mutant_demo.rs
cargo test --offline -p cedar-policy $FEAT --test mutant_demo > "$D/confirm_clean.log" 2>&1; c=$?
git apply "$D/patch.diff" || { echo "$M: patch does not apply"; exit 2; }
cargo test --offline -p cedar-policy $FEAT --test mutant_demo > "$D/confirm_mutant.log" 2>&1; m=$?
rm -f cedar-policy/tests/mutant_demo.rs
t1=skipped; if grep -q "cedar-policy-core/" "$D/patch.diff"; then cargo test --offline -p cedar-policy-core --lib > "$D/confirm_core_tests.log" 2>&1; t1=$?; fi  # core is untouched otherwise
cargo test --offline -p cedar-policy --lib $FEAT > "$D/confirm_api_tests.log" 2>&1; t2=$?
t3=0
if grep -q "cedar-policy-formatter/" "$D/patch.diff"; then cargo test --offline -p cedar-policy-formatter > "$D/confirm_formatter_tests.log" 2>&1; echo "$M: formatter_tests_exit=$?"; fi
if grep -q "cedar-policy-cli/" "$D/patch.diff"; then cargo test --offline -p cedar-policy-cli > "$D/confirm_cli_tests.log" 2>&1; t3=$?; fi
git checkout -q -- .
echo "$M: demo_on_clean_exit=$c demo_with_mutant_exit=$m core_lib_tests_exit=$t1 api_lib_tests_exit=$t2 cli_tests_exit=$t3"
