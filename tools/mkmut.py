#!/usr/bin/env python3
"""mkmut.py <ID> <name> <file> <<< 'OLD\n=====\nNEW'  -> writes mutants/<ID>/<name>.diff (against /repo)"""
import sys, subprocess, os, tempfile, shutil
pid, name, rel = sys.argv[1:4]
old, new = sys.stdin.read().split("\n=====\n")
new = new.rstrip("\n") if not old.endswith("\n") else new
src = open(f"/repo/{rel}").read()
assert src.count(old) == 1, f"old text occurs {src.count(old)} times"
d = tempfile.mkdtemp()
os.makedirs(os.path.dirname(f"{d}/a/{rel}"), exist_ok=True); os.makedirs(os.path.dirname(f"{d}/b/{rel}"), exist_ok=True)
open(f"{d}/a/{rel}", "w").write(src); open(f"{d}/b/{rel}", "w").write(src.replace(old, new))
out = subprocess.run(["diff", "-u", f"a/{rel}", f"b/{rel}"], cwd=d, capture_output=True, text=True).stdout
os.makedirs(f"/verif/mutants/{pid}", exist_ok=True)
open(f"/verif/mutants/{pid}/{name}.diff", "w").write(out)
shutil.rmtree(d)
print(f"wrote mutants/{pid}/{name}.diff ({len(out.splitlines())} lines)")
