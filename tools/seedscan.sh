#!/bin/sh
# run every quick check on the unchanged tree under several seeds; nothing may alarm
mkdir -p /verif/work/seedscan
for seed in "$@"; do
  for id in C01 C04 C08 C15 C19 C20; do
    VERIF_SEED=$seed VERIF_OUT_DIR=/verif/work/seedscan /verif/check $id quick > /verif/work/seedscan/$id-$seed.log 2>&1
    echo "seed=$seed $id exit=$? $(grep -a -E '^done:' /verif/work/seedscan/$id-$seed.log | cut -c1-120) $(grep -a -c -E 'VIOLATION|HARNESS' /verif/work/seedscan/$id-$seed.log) alarms"
  done
done
