#!/bin/sh
# tools/run_mutants_subset.sh <out.tsv> <ID/mutant-dir-or-diff>...   -- like run_all_mutants.sh for a chosen list (appends rows)
OUT="$1"; shift
OUTD="${MUT_OUT:-/verif/work/mut}"; mkdir -p "$OUTD"
run() { # id name origin patch
  s=$(date +%s)
  /verif/tools/mutant.sh "$4" "$1" quick > "$OUTD/one.log" 2>&1
  rc=$?
  e=$(date +%s)
  run=$(grep -o "violation in run [0-9]*" "$OUTD/last.log" | head -1 | awk '{print $4}')
  kind=$(grep -o "violation in run [0-9]*: kind=[a-z_]*" "$OUTD/last.log" | head -1 | sed 's/.*kind=//')
  printf '%s\t%s\t%s\t%s\t%s\t%s\t%s\n' "$1" "$2" "$3" "$rc" "${run:--}" "${kind:--}" "$((e-s))" >> "$OUT"
}
for x in "$@"; do
  case "$x" in
    control:*) id=${x#control:}; run "$id" "(no change)" control none ;;
    */seeded/*) d=${x%/}; id=$(basename "$(dirname "$d")"); m=$(basename "$d"); run "$id" "$m" agent "$d/patch.diff" ;;
    *.diff) id=$(basename "$(dirname "$x")"); m=$(basename "$x" .diff); run "$id" "$m" own "$x" ;;
  esac
done
