#!/usr/bin/env python3
# tools/mkmeta_d.py -- write seeded/<ID>/d-m*/meta.json from the confirmation logs (work/try/confirm-<ID>.txt)
# and the mutant-run tables (work/mut?/res.tsv) of round d
import json, glob, os, re
breaks = {
 'C01/d-m1': ("eval_in walks the right-hand set lazily: `x in [A, <non-entity>]` is satisfied instead of a type error when a matching entity is visited before the non-entity element", "a policy with `.. in [..]` whose set holds a matching entity and a record / set / extension value"),
 'C04/d-m1': ("upsert_entities subtracts every parent restated by some batch member from the stale set stripped off descendants: a stale indirect ancestor survives", "one upsert of >= 2 stored entities, one cutting the path, another restating the parent (E->M->X->P->T, upsert [M{}, X{P}])"),
 'C04/d-m2': ("remove_entities strips links to a uid that has no record", "remove of a uid that only occurs as a dangling parent"),
 'C04/d-m3': ("upsert repairs the closure in one scan and checks only the replaced uids for self-loops: a cyclic store is accepted", "an upsert closing a cycle of length >= 3 through an indirect descendant, under a suitable hash order"),
 'C08/d-m1': ("ast::Policy equality takes an Arc::ptr_eq fast path that ignores slot values: merge treats a link rebound to other values in a clone as identical and overwrites it", "merge of a set with an edited clone of itself (unlink + link of the same id to the same template with other values)"),
 'C08/d-m2': ("API remove_static builds the ast id through Display (escape_debug)", "remove_static of a static policy whose id contains a backslash, quote or control character (worse when the escaped spelling is also an id)"),
 'C15/d-m1': ("Residual::all_literal_uids ignores the operand of `is`: an entity referenced only under a type test is never requested", "`<attribute access> is T` on an entity that no other pending residual mentions"),
 'C15/d-m2': ("the batched loop's early-deny fast path treats an erroring forbid as satisfied", "a validated forbid that errors at run time (overflow, dangling reference) next to a satisfied permit"),
 'C15/d-m3': ("TPE `is` compares only the base name of the entity type", "two entity types sharing a base name in different namespaces and a type test against the other one"),
 'C19/d-m1': ("preparse_policy_set removes the live entry before parsing the replacement: a failed re-registration evicts the registered set", "successful registration, failed re-registration under the same name, stateful call"),
 'C19/d-m2': ("ffi::Entities::parse returns Entities::empty() for `[]`, dropping the action entities a schema contributes", "schema with action groups, `action in <group>` policy, entities exactly `[]`"),
 'C19/d-m3': ("ffi::PolicySet::parse links an identical (template, values) instantiation only once", "two template links with the same template and equal values under different new ids"),
 'C20/d-m1': ("est::PolicySet::get_template returns only templates with a slot: PolicySet::from_json_value panics on a link to a slot-less entry under `templates`", "JSON policy set with a slot-less policy under `templates` and a link to it with empty values"),
 'C20/d-m2': ("IPAddr::is_in_range builds the netmask with a plain shift: prefix length 0 panics (shift overflow)", "isInRange where an operand has prefix /0"),
}
conf = {}
for f in glob.glob('/verif/work/try/confirm-C*.txt'):
    pid = re.search(r'confirm-(C\d+)', f).group(1)
    for l in open(f):
        m = re.match(r'(d-m\d+): (.*)', l.strip())
        if m: conf[f'{pid}/{m.group(1)}'] = m.group(2)
runs = {}
for f in glob.glob('/verif/work/mut?/res*.tsv'):
    for l in open(f):
        c = l.rstrip('\n').split('\t')
        if len(c) >= 7 and c[2] == 'agent':
            runs.setdefault(f'{c[0]}/{c[1]}', []).append({'check': c[0], 'exit': int(c[3]), 'first_violation_run': c[4], 'kind': c[5], 'wall_s': int(c[6])})
extra = json.load(open('/verif/work/try/extra_runs.json')) if os.path.exists('/verif/work/try/extra_runs.json') else {}
for k, (b, n) in breaks.items():
    d = f'/verif/seeded/{k}'
    if not os.path.isdir(d): continue
    meta = {'property': k.split('/')[0], 'origin': 'independent sub-agent given only the property text and a scratch worktree (round d: told which changes earlier rounds had produced and asked for different, hard-to-find ones)',
            'breaks': b, 'needs_to_manifest': n,
            'confirmed_by_me': conf.get(k, 'NOT CONFIRMED'), 'confirm_cmd': 'tools/confirm_seeded.sh <agent worktree of %s> %s (demo on the clean worktree, demo with the patch, lib tests of the touched crates with the patch)' % tuple(k.split('/')),
            'check_run': f'tools/mutant.sh seeded/{k}/patch.diff {k.split("/")[0]} quick', 'check_results': runs.get(k, []) + extra.get(k, [])}
    json.dump(meta, open(d + '/meta.json', 'w'), indent=1)
    print(k, meta['confirmed_by_me'][:60], meta['check_results'])
